#!/venv/bin/python
"""tools/seeded_table.py: re-renders the table of independently planted changes in DESIGN.md section 10.6 from seeded/*/meta.json."""
import glob
import json
import os
import re
import sys

VERIF = os.path.dirname(os.path.dirname(os.path.abspath(__file__)))
HEAD = "| id | what the change does | what it needs to manifest | checks run -> verdict |"


def key(name):
    m = re.match(r"([A-Z]\d\d)(?:-r(\d+))?-(\d+)", name)
    return (m.group(1), int(m.group(2) or 1), int(m.group(3))) if m else (name, 0, 0)


def cell(s, n):
    s = " ".join(str(s).replace("|", "/").split())
    return s[:n]


def main():
    rows = []
    for d in sorted(glob.glob(os.path.join(VERIF, "seeded", "*")), key=lambda p: key(os.path.basename(p))):
        name = os.path.basename(d)
        meta = json.load(open(os.path.join(d, "meta.json")))
        verdicts = ", ".join("%s %s" % (k, v.get("verdict")) for k, v in meta.get("checks", {}).items())
        rows.append("| %s | %s | %s | %s |" % (name, cell(meta.get("summary", ""), 170), cell(meta.get("needs", ""), 150), verdicts))
    path = os.path.join(VERIF, "DESIGN.md")
    lines = open(path).read().split("\n")
    i = lines.index(HEAD)
    j = i + 2
    while j < len(lines) and lines[j].startswith("|"):
        j += 1
    lines[i + 2:j] = rows
    open(path, "w").write("\n".join(lines))
    print("%d rows" % len(rows))


if __name__ == "__main__":
    sys.exit(main())
