#!/bin/bash
# tools/mutant.sh <patch.diff> <prop> [<prop> ...]  [-- extra check args]
# Applies a patch to a scratch copy of /repo under /dev/shm, runs the repo's own test
# suite there (a mutant is only admissible if it stays green), then runs the given
# checks against the copy through VERIF_REPO.  The copy is removed afterwards.
set -u
PATCH="$1"; shift
PROPS=(); EXTRA=()
while [ $# -gt 0 ]; do
  if [ "$1" == "--" ]; then shift; EXTRA=("$@"); break; fi
  PROPS+=("$1"); shift
done
HERE="$(cd "$(dirname "${BASH_SOURCE[0]}")/.." && pwd)"
SCR="$(mktemp -d /dev/shm/mut-XXXXXX)"
trap 'rm -rf "$SCR"' EXIT
rsync -a --exclude .git --exclude __pycache__ /repo/ "$SCR/repo/"
( cd "$SCR/repo" && patch -p1 --quiet < "$PATCH" ) || { echo "MUTANT patch does not apply"; exit 3; }
T=$( cd "$SCR/repo" && PYTHONPATH="$SCR/repo" timeout 600 /venv/bin/python -B -m pytest -q -p no:cacheprovider --timeout=900 -x 2>&1 | tail -1 )
echo "MUTANT tests: $T"
case "$T" in *failed*|*error*) echo "MUTANT not admissible (suite fails)";; esac
for P in "${PROPS[@]}"; do
  OUT=$( VERIF_REPO="$SCR/repo" timeout 1800 "$HERE/check" "$P" --no-selfcheck "${EXTRA[@]}" 2>&1 )
  RC=$?
  echo "MUTANT $P exit=$RC $(echo "$OUT" | grep -E '^(violation|VIOLATION|HARNESS|KNOWN)' | head -3 | tr '\n' ' ')"
done
