#!/bin/bash
# tools/soak.sh <first-seed> <last-seed> [props...]: runs the quick tier of every check under many VERIF_SEED values
# and prints one line per (property, seed) that did not exit 0.  Used to hunt false alarms on the unchanged tree.
HERE="$(cd "$(dirname "${BASH_SOURCE[0]}")/.." && pwd)"
A=$1; B=$2; shift 2
PROPS=("$@")
[ ${#PROPS[@]} -eq 0 ] && PROPS=(C01 C02 C03 C04 C05 C06 C07 C08 C09 C11 C12 C13 C14 C15 C16 C19)
for S in $(seq $A $B); do
  for P in "${PROPS[@]}"; do
    OUT=$("$HERE/check" "$P" --seed "$S" --no-selfcheck --no-shrink 2>&1); RC=$?
    if [ $RC -ne 0 ]; then echo "SOAK-ALARM prop=$P seed=$S rc=$RC :: $(echo "$OUT" | grep -E '^(violation|HARNESS)' | head -2 | cut -c1-400 | tr '\n' ' ')"; fi
  done
  echo "SOAK seed=$S done"
done
