#!/venv/bin/python
"""Regenerates /verif/MANIFEST.json from the property modules that exist."""
import json
import os
import sys

VERIF = os.path.dirname(os.path.dirname(os.path.abspath(__file__)))

NA = {
    "C10": "pure function of (realised tree, path string): no schedule, clock, fault, placement or history dimension for a simulator to vary; deciding it is input generation, not deterministic simulation",
    "C17": "pure function of the cue-sheet text (the only file access is 'read all lines'); nothing to schedule or fault that the statement mentions",
    "C18": "three total functions over byte domains of <=256 elements; settled by plain enumeration, which is a different technique",
    "C20": "decoding/formatting of header bytes that have already been fetched; no placement, history, fault or interleaving dimension",
}

CHECKS = {
    "C01": ("exploration", "5 C01", "seeded disk-allocator simulation vs independent writer model",
            "Seeded workload through the I/O seams with an independent AKAI writer as reference model: every chain ordering policy, directory mode, exact-fill length and block-size knob is sampled; evidence over the seeds explored, no schedule dimension.",
            "Trusts the independent writer's reading of the AKAI layout as declared by the tool's constructs; SimFile stands in for BufferedReader (cross-checked through the real CLI on real files for a sample of runs)."),
    "C02": ("exploration", "5 C02", "seeded cluster-allocator simulation vs independent writer model",
            "Seeded Roland S-7xx images (cluster permutations, cluster_top, loop modes, FAT versions, exact-fill lengths) from an independent writer, exported through the simulated file and output seams and compared with the model; sampling, no schedule dimension.",
            "Trusts the independent writer's reading of the S-7xx layout; SimFile stands in for BufferedReader."),
    "C03": ("exploration", "5 C03", "seeded cue/bin workload with torn tails vs slice model",
            "Seeded cue sheets and bins (torn tails not multiple of 2352/4, block-size knob, text styles: CRLF / no final newline / blank lines / keyword case / FILE in a sub- or parent directory / sheets over 8 KiB) through the virtual-FS seam; per-track PCM compared with slices of the bin. Weakest fit for simulation (said so in DESIGN).",
            "Cue generator covers AUDIO tracks with increasing indices only; virtual FS stands in for open()."),
    "C04": ("exploration", "5 C04", "acknowledgement invariant over clean and faulted simulated exports",
            "Every file acknowledged by an 'Exported' line in clean and fault-injected simulated exports (truncation, rot, failed create) is walked by an independent RIFF parser and stdlib wave; plus a seeded sweep of AKAI header tuning/loop bytes.",
            "Independent RIFF walker + stdlib wave are the oracle; sweep of key x semitone x cents is sampled, not exhaustive."),
    "C05": ("exploration", "5 C05", "conservation / exactly-once oracle over simulated exports",
            "Attributable PCM per sample; every sample must occur in exactly one channel of exactly one reported file, L in channel 0; name multisets biased to near-collisions, directory order chosen by the simulated allocator.",
            "Pairing rule asserted only where the multiset makes it unambiguous; conservation asserted always."),
    "C06": ("exploration", "5 C06", "output-seam (audit hook) invariants during simulated exports",
            "Every create/mkdir is observed at a sys.addaudithook seam around a sandbox: duplicate creates, unsafe components and escapes (blocked and recorded) are violations; hostile names at every level of AKAI/Roland/CDDA images.",
            "Audit hook sees builtins.open/os.mkdir/os.rename/os.remove; name generator is biased, not exhaustive."),
    "C07": ("fault_enumeration", "5 C07", "table-fault injection + deterministic step clock vs model walk",
            "Allocation tables are generated well-formed and then hit with structured faults (cycle, self-link, cross-link, out-of-range, run-into-free); resolution must equal the model walk where the statement says so and terminate within a logical step budget always; small tables are enumerated.",
            "Step clock is sys.monitoring PY_START+JUMP; C-level loops are outside it. Enumeration bounds stated in evidence."),
    "C08": ("exploration", "5 C08", "seeded operation histories vs sequential reference model (refinement)",
            "Histories of seek/tell/read over nested real view classes are compared op-by-op with a bytes+cursor model; all sequences up to length 3/4 over a 10-op alphabet on tiny stacks are enumerated, longer ones sampled.",
            "Windows non-empty and inside their substream; layers above a reversed view aligned to the sample width."),
    "C09": ("exploration", "5 C09", "differential simulation across five storage encodings",
            "The same logical disk is served through raw, 2352-byte-sector, MDX, cue->raw and cue->2352 simulated storage; ls at every level and export trees must agree with the raw arm.",
            "Purely differential; the raw arm is validated by C01/C02."),
    "C11": ("exploration", "5 C11", "seeded cooperative scheduler over clients sharing one file handle",
            "Transcoder iterators, raw readers, lazy directory realisers and a foreign cursor-mover are clients stepped one operation at a time by a seeded scheduler over one SimFile; each stream's bytes must equal the model's. Small interleaving spaces are walked completely in the thorough tier. One fault kind: the image cut inside the physically last sample - that sample's reader may fail, every other stream must stay exact.",
            "Clients are cooperative generators (the code is single-threaded; pre-emption inside one read call is not meaningful)."),
    "C12": ("exploration", "5 C12", "seeded stream/knob configurations with EOF at arbitrary instants vs per-channel model",
            "Attributable sample values per (stream, channel, frame); block-size knob from one frame to 64 KiB; EOF of one source at every position relative to a block edge; patched host byte order; output compared with the per-channel model.",
            "The host-byte-order arm patches the tool's module-level notion of the host order (the quantifier's 'patched'); numpy itself keeps decoding natively."),
    "C13": ("fault_enumeration", "5 C13", "stored-data fault injection + bounded-liveness step clock in forked children",
            "Random bytes and generated images with targeted/uniform rot, table faults, truncation, EIO and cue-sheet faults (dropped/duplicated/blank lines, huge numbers, very long titles, parent-directory FILE names); every ls/export must finish within a step budget relative to the clean arm and within an RSS bound, measured in a forked child with CPU/AS backstops.",
            "Step clock does not see C-level loops (CPU backstop 45 s per scenario only, which is what found the cubic name regex D19); bounds are relative to the clean run with >=20x margin."),
    "C14": ("fault_enumeration", "5 C14", "single-record rot enumeration, differential against the clean arm",
            "Every byte position x value class of one directory record (AKAI file entry, Roland sample directory/parameter record) is damaged; all other entries must still be listed and exported unchanged relative to the clean arm of the same seed.",
            "Names are generated pairwise distant so that legitimate de-duplication/pairing cannot rename siblings."),
    "C15": ("fault_enumeration", "5 C15", "crash-point (truncation) enumeration, prefix oracle against the clean arm",
            "Images are cut at every sector/cluster boundary +-1, at structure edges and at seeded interior offsets; every reported file must be a valid WAV whose PCM is a prefix of the clean arm's file at the same path, and files wholly before the cut must be complete.",
            "Dependency sets are computed by the independent writer."),
    "C16": ("exploration", "5 C16", "seeded operation histories on one image object vs fresh object per operation",
            "Histories of ls(valid/invalid path) and export on one opened image are compared with the same operation on a fresh image; the SimFile records any write. A quarter of the AKAI/Roland histories start after the process has listed and exported another disc of identical layout and different audio, with the references computed in a forked child.",
            "History length bounded (<=12)."),
    "C19": ("exploration", "5 C19", "seeded block-split schedules into stateful filters vs one-block reference run",
            "A scheduler chooses the block boundaries fed to each real (compiled) filter; concatenated output must equal the one-block run; compositions of short signals are enumerated; saturation checked against an exact integer model.",
            "Tests the shipped compiled extensions (.so); Cython is not available to rebuild from .pyx."),
}


def main():
    props = [json.loads(l) for l in open(os.path.join(VERIF, "properties.jsonl"))]
    ids = [p["id"] for p in props]
    checks, na = [], []
    for pid in ids:
        if pid in NA:
            na.append({"property_id": pid, "reason": NA[pid]})
            continue
        mod = os.path.join(VERIF, "sim", "props", pid.lower() + ".py")
        if pid in CHECKS and os.path.exists(mod):
            cat, ref, tech, text, note = CHECKS[pid]
            checks.append({
                "property_id": pid,
                "quick_cmd": "./check %s --tier quick" % pid,
                "thorough_cmd": "./check %s --tier thorough" % pid,
                "evidence_file": "evidence/%s.json" % pid,
                "replay_cmd_template": "./check %s --replay {path}" % pid,
                "engine": "simv",
                "level_claimed": {"category": cat, "text": text, "design_ref": "DESIGN.md section " + ref},
                "level_note": note,
                "technique": "deterministic simulation with fault injection: " + tech,
            })
        else:
            na.append({"property_id": pid, "reason": "not claimed yet: the simulated check for this property is designed (DESIGN.md section 5) but not built in this commit"})
    doc = {
        "version": 1,
        "setup_cmd": "./setup.sh",
        "hooks": {
            "guard": "SMPL_EXTRACT_VERIF",
            "enable": "none needed: every seam is reached by passing file objects, patching module globals/function defaults from the harness (sim/seams.py); the repo never reads the guard",
            "baseline_off_cmd": "cd /repo && /venv/bin/python -m pytest -ra -q -p no:cacheprovider --timeout=900 --continue-on-collection-errors",
            "source_commits": [],
            "add_only": True,
        },
        "engines": [{
            "name": "simv", "path": "sim/",
            "serves_properties": [c["property_id"] for c in checks],
            "kind_free_text": "in-process deterministic simulator: SimFile/virtual-FS input seam, audit-hook output sandbox, sys.monitoring step clock, seeded scheduler, stored-data fault injector, ddmin shrinker, JSON replay",
        }],
        "checks": checks,
        "not_applicable": na,
        "notes": "Exit codes: 0 held (KNOWN-FINDING lines allowed), 1 VIOLATION, 2 HARNESS-ERROR. VERIF_SEED / --seed selects the batch; VERIF_REPO overrides /repo for mutant testing. Genuine defects repaired in /repo as 'fix:' commits are listed in known_findings.json.",
    }
    with open(os.path.join(VERIF, "MANIFEST.json"), "w") as fh:
        json.dump(doc, fh, indent=1)
    print("MANIFEST.json: %d checks, %d not_applicable" % (len(checks), len(na)))


if __name__ == "__main__":
    sys.exit(main())
