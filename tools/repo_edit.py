#!/venv/bin/python
"""repo_edit.py <file> : reads OLD and NEW blocks from stdin separated by a line '=====', replaces once, preserving CRLF/LF."""
import sys
p = sys.argv[1]
old, new = sys.stdin.read().split("\n=====\n")
old = old + "\n"
if not new.endswith("\n"):
    new += "\n"
s = open(p, newline="").read()
crlf = "\r\n" in s
if crlf:
    old, new = old.replace("\n", "\r\n"), new.replace("\n", "\r\n")
assert s.count(old) == 1, "old block occurs %d times" % s.count(old)
open(p, "w", newline="").write(s.replace(old, new))
print("edited %s (%s)" % (p, "CRLF" if crlf else "LF"))
