#!/venv/bin/python
"""tools/regress_seeded.py [name-prefix ...]: re-applies every kept planted change (seeded/<id>/patch.diff) to a scratch copy of
/repo and re-runs the check of the property it was written against; prints one line per change and a summary.  Used after
generator changes to make sure no earlier detection was lost."""
import glob
import json
import os
import re
import shutil
import subprocess
import sys
import tempfile

VERIF = os.path.dirname(os.path.dirname(os.path.abspath(__file__)))


def main(argv):
    dirs = sorted(glob.glob(os.path.join(VERIF, "seeded", "*")))
    if argv:
        dirs = [d for d in dirs if any(os.path.basename(d).startswith(a) for a in argv)]
    missed, bad = [], []
    for d in dirs:
        name = os.path.basename(d)
        meta = json.load(open(os.path.join(d, "meta.json")))
        caught_by = [k for k, v in meta.get("checks", {}).items() if v.get("verdict") == "caught"]
        prop = caught_by[0] if caught_by else (re.match(r"(C\d\d)", str(meta.get("property", name))) or [None, "C01"])[1]
        scr = tempfile.mkdtemp(prefix="rg-", dir="/dev/shm")
        try:
            repo = os.path.join(scr, "repo")
            subprocess.run(["rsync", "-a", "--exclude", ".git", "--exclude", "__pycache__", "/repo/", repo + "/"], check=True)
            p = subprocess.run(["git", "apply", "--whitespace=nowarn", os.path.join(d, "patch.diff")], cwd=repo, capture_output=True, text=True)
            if p.returncode != 0:
                p = subprocess.run(["patch", "-p1", "-s", "-i", os.path.join(d, "patch.diff")], cwd=repo, capture_output=True, text=True)
            if p.returncode != 0:
                print("%-12s %s PATCH-NO-LONGER-APPLIES" % (name, prop), flush=True)
                bad.append(name)
                continue
            c = subprocess.run([os.path.join(VERIF, "check"), prop, "--no-selfcheck", "--no-shrink"], env=dict(os.environ, VERIF_REPO=repo),
                               capture_output=True, text=True, timeout=2400)
            first = [l for l in c.stdout.split("\n") if l.startswith(("violation ", "HARNESS"))][:1]
            verdict = {0: "MISSED", 1: "caught", 2: "HARNESS-ERROR"}.get(c.returncode, str(c.returncode))
            n = re.search(r"runs_affected=(\d+)", first[0]) if first else None
            print("%-12s %s %-8s %s" % (name, prop, verdict, ("runs=" + n.group(1)) if n else ""), flush=True)
            if verdict != "caught":
                missed.append(name)
        finally:
            shutil.rmtree(scr, ignore_errors=True)
    print("REGRESS total=%d missed=%s not_applicable=%s" % (len(dirs), missed, bad))
    return 0


if __name__ == "__main__":
    sys.exit(main(sys.argv[1:]))
