#!/bin/bash
# tools/thorough_pass.sh [budget-seconds] [props...]: one thorough-tier run of every check (wall budget per check), one line each.
HERE="$(cd "$(dirname "${BASH_SOURCE[0]}")/.." && pwd)"
B=${1:-480}; shift
PROPS=("$@")
[ ${#PROPS[@]} -eq 0 ] && PROPS=(C01 C02 C03 C04 C05 C06 C07 C08 C09 C11 C12 C13 C14 C15 C16 C19)
for P in "${PROPS[@]}"; do
  OUT=$("$HERE/check" "$P" --tier thorough --budget-s "$B" 2>&1); RC=$?
  echo "THOROUGH prop=$P rc=$RC :: $(echo "$OUT" | grep -E '^(DONE|violation|HARNESS|VIOLATION)' | head -3 | cut -c1-300 | tr '\n' ' ')"
done
