#!/venv/bin/python
"""tools/try_seeded.py <dir with patch.diff demo.py meta.json> <name> <prop> [<prop> ...] [--keep]
Confirms an independently planted change in a scratch copy of /repo (tests green, demo fails with / passes without),
runs the named checks against it through VERIF_REPO and, with --keep, files it under /verif/seeded/<name>/."""
import json
import os
import shutil
import subprocess
import sys
import tempfile

VERIF = os.path.dirname(os.path.dirname(os.path.abspath(__file__)))


def sh(argv, cwd, env=None, timeout=3600):
    p = subprocess.run(argv, cwd=cwd, env=env, capture_output=True, text=True, timeout=timeout)
    return p.returncode, p.stdout + p.stderr


def main(argv):
    keep = "--keep" in argv
    extra = [a for a in argv if a.startswith("--") and a != "--keep"]
    argv = [a for a in argv if not a.startswith("--")]
    src, name, props = argv[0], argv[1], argv[2:]
    scr = tempfile.mkdtemp(prefix="seed-", dir="/dev/shm")
    out = {"name": name, "source": src}
    try:
        repo = os.path.join(scr, "repo")
        subprocess.run(["rsync", "-a", "--exclude", ".git", "--exclude", "__pycache__", "--exclude", "_out", "/repo/", repo + "/"], check=True)
        env = dict(os.environ, PYTHONPATH=repo, PYTHONDONTWRITEBYTECODE="1")
        demo = os.path.join(src, "demo.py")
        rc0, o0 = sh(["/venv/bin/python", "-B", demo], repo, env, 600)
        out["demo_unpatched_rc"] = rc0
        rc, o = sh(["git", "apply", "--whitespace=nowarn", os.path.join(os.path.abspath(src), "patch.diff")], repo)
        if rc != 0:
            rc, o = sh(["patch", "-p1", "-i", os.path.join(os.path.abspath(src), "patch.diff")], repo)
        out["patch_applies"] = rc == 0
        if rc != 0:
            print(json.dumps(out), o[-500:])
            return 1
        rct, ot = sh(["/venv/bin/python", "-B", "-m", "pytest", "-q", "-p", "no:cacheprovider"], repo, env, 900)
        out["tests"] = ot.strip().split("\n")[-1]
        rc1, o1 = sh(["/venv/bin/python", "-B", demo], repo, env, 600)
        out["demo_patched_rc"] = rc1
        out["confirmed"] = rc0 == 0 and rc1 != 0 and " failed" not in out["tests"] and "error" not in out["tests"].lower()
        res = {}
        for p in props:
            env2 = dict(os.environ, VERIF_REPO=repo)
            c = subprocess.run([os.path.join(VERIF, "check"), p, "--no-selfcheck", "--no-shrink"] + extra, env=env2, capture_output=True, text=True, timeout=2400)
            first = [l for l in c.stdout.split("\n") if l.startswith(("violation ", "HARNESS"))][:1]
            res[p] = {"exit": c.returncode, "verdict": {0: "MISSED", 1: "caught", 2: "HARNESS-ERROR"}.get(c.returncode, str(c.returncode)),
                      "first": first[0][:300] if first else ""}
        out["checks"] = res
        print(json.dumps(out, indent=1))
        if keep:
            dst = os.path.join(VERIF, "seeded", name)
            os.makedirs(dst, exist_ok=True)
            for f in ("patch.diff", "demo.py"):
                shutil.copy(os.path.join(src, f), os.path.join(dst, f))
            meta = {}
            try:
                meta = json.load(open(os.path.join(src, "meta.json")))
            except Exception:      # noqa: BLE001
                pass
            meta["confirmation"] = {k: out[k] for k in ("demo_unpatched_rc", "demo_patched_rc", "tests", "confirmed")}
            meta["what_i_ran"] = "scratch copy of /repo HEAD + patch; repo test suite; demo.py with and without the patch; ./check <prop> --no-selfcheck --no-shrink with VERIF_REPO=<scratch>"
            meta["checks"] = res
            json.dump(meta, open(os.path.join(dst, "meta.json"), "w"), indent=1)
        return 0
    finally:
        shutil.rmtree(scr, ignore_errors=True)


if __name__ == "__main__":
    sys.exit(main(sys.argv[1:]))
