#!/venv/bin/python
"""tools/run_mutants.py [mutant-id ...] [--props C01,C02] [--tier quick]
Applies each scripted mutant to a scratch copy of /repo under /dev/shm, checks admissibility
(the repo's own test suite must stay green) and runs the listed checks through VERIF_REPO."""
import os
import shutil
import subprocess
import sys
import tempfile

VERIF = os.path.dirname(os.path.dirname(os.path.abspath(__file__)))
sys.path.insert(0, VERIF)
from selfmut.mutants import MUTANTS  # noqa: E402


def main(argv):
    ids = [a for a in argv if not a.startswith("--")]
    props_override = None
    for a in argv:
        if a.startswith("--props="):
            props_override = a.split("=", 1)[1].split(",")
    rows = []
    for m in MUTANTS:
        if ids and m["id"] not in ids:
            continue
        scr = tempfile.mkdtemp(prefix="mut-", dir="/dev/shm")
        try:
            repo = os.path.join(scr, "repo")
            subprocess.run(["rsync", "-a", "--exclude", ".git", "--exclude", "__pycache__", "/repo/", repo + "/"], check=True)
            p = os.path.join(repo, m["file"])
            s = open(p).read()
            if m["old"] not in s:
                rows.append((m["id"], "PATCH-DOES-NOT-APPLY", ""))
                print(rows[-1], flush=True)
                continue
            open(p, "w").write(s.replace(m["old"], m["new"], 1))
            env = dict(os.environ, PYTHONPATH=repo, PYTHONDONTWRITEBYTECODE="1")
            t = subprocess.run(["/venv/bin/python", "-B", "-m", "pytest", "-q", "-p", "no:cacheprovider", "-x"], cwd=repo, env=env,
                               capture_output=True, text=True, timeout=900)
            tests = t.stdout.strip().split("\n")[-1]
            admissible = " failed" not in tests and "error" not in tests
            res = []
            for prop in (props_override or m["props"]):
                if not os.path.exists(os.path.join(VERIF, "sim", "props", prop.lower() + ".py")):
                    res.append("%s:absent" % prop)
                    continue
                env2 = dict(os.environ, VERIF_REPO=repo)
                c = subprocess.run([os.path.join(VERIF, "check"), prop, "--no-selfcheck", "--no-shrink"], env=env2, capture_output=True, text=True, timeout=3600)
                first = [l for l in c.stdout.split("\n") if l.startswith(("violation ", "HARNESS"))][:1]
                res.append("%s:%s%s" % (prop, {0: "MISSED", 1: "caught", 2: "HARNESS-ERROR"}.get(c.returncode, c.returncode),
                                        (" [" + first[0][:110] + "]") if first and c.returncode != 0 else ""))
            rows.append((m["id"], "admissible" if admissible else "NOT-ADMISSIBLE(" + tests[:40] + ")", "; ".join(res)))
            print(rows[-1], flush=True)
        finally:
            shutil.rmtree(scr, ignore_errors=True)
    return 0


if __name__ == "__main__":
    sys.exit(main(sys.argv[1:]))
