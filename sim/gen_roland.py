"""Seeded generator of Roland S-7xx logical models (shared by several properties)."""
from __future__ import annotations

import random
from typing import List

from .core import ScenarioInvalid, weighted
from .model import roland as R

SAFE = "abcdefghijkmnopqstuvwxyzABCDEFGHIJKMNOPQSTUVWXYZ0123456789"
WORDS = ["Piano", "Strings", "Brass", "Choir", "Kick", "Snare", "Bass", "Pad", "Bell", "Flute", "Organ", "Gtr"]


def safe_name(rng: random.Random, used: set, maxlen: int = 16) -> str:
    for _ in range(200):
        k = rng.random()
        if k < 0.5:
            s = rng.choice(WORDS) + " " + str(rng.randint(0, 99))
        elif k < 0.8:
            s = "".join(rng.choice(SAFE) for _ in range(rng.randint(1, 10)))
        else:
            s = "".join(rng.choice(SAFE) for _ in range(rng.randint(1, 6))) + " " + "".join(rng.choice(SAFE) for _ in range(rng.randint(1, 6)))
        s = s[:maxlen].strip()
        toks = s.split(" ")
        if not s or toks[-1] in ("L", "R") or s in used or s.lower() in {u.lower() for u in used}:
            continue
        used.add(s)
        return s
    raise RuntimeError("name space exhausted")


def gen_words(rng: random.Random, max_clusters: int = 3) -> int:
    half = R.CL // 2
    kind = weighted(rng, [("small", 5), ("fill", 6), ("rand", 5), ("one", 1)])
    if kind == "one":
        return 1
    if kind == "small":
        return rng.randint(2, 700)
    if kind == "fill":
        return max(1, rng.randint(1, max_clusters) * half + rng.choice([-2, -1, 0, 0, 0, 1, 2]))
    return rng.randint(1, max_clusters * half)


def gen_points(rng: random.Random, n: int, mode: int) -> List[List[int]]:
    """Five loop points [addr, fine]; the window [start, selected end] is non-empty and inside the data."""
    full = rng.random() < 0.45
    if full:
        start, end = 0, n - 1
    else:
        start = rng.randint(0, n - 1)
        end = rng.randint(start, n - 1)
        if rng.random() < 0.3:
            start = 0
        if rng.random() < 0.3:
            end = n - 1
    fine = lambda: rng.randint(0, 255)
    if mode in (1, 3):
        # end = release end; sustain points anywhere in [start, end]
        se = rng.randint(start, end)
        ss = rng.randint(start, se) if rng.random() < 0.6 else rng.randint(0, n - 1)
        rs = rng.randint(start, end) if rng.random() < 0.6 else rng.randint(0, n - 1)
        pts = [start, ss, se, rs, end]
    else:
        # only the start and the selected end point delimit the audio; the loop points may lie anywhere in the data,
        # also before the start point (a trimmed head)
        ss = rng.randint(start, end) if rng.random() < 0.6 else rng.randint(0, n - 1)
        rs = rng.randint(0, n - 1)
        re_ = rng.randint(0, n - 1)
        if rng.random() < 0.25:
            # the release loop is not used by this mode: its markers may be stale (left over from a longer recording) or filler
            rs, re_ = [rng.choice([n, n + 1, n + rng.randint(2, 100000), 0xFFFFFF, 0xFFFFFE, 2 * n]) for _ in range(2)]
        pts = [start, ss, end, rs, re_]
    return [[p, fine()] for p in pts]


def gen_sample(rng: random.Random, name: str, key: str, *, n=None, max_clusters: int = 3, long_bias: float = 0.0) -> dict:
    n = gen_words(rng, max_clusters) if n is None else n
    mode = rng.randint(0, 6)
    if long_bias and rng.random() < long_bias:
        # a sample of several clusters, most often laid out one cluster after the other, read from its first word
        n = rng.randint(2, max(2, max_clusters)) * (R.CL // 2) + rng.choice([-600, -2, -1, 0, 0, 1, 2, 700])
        mode = rng.choice([0, 1, 2, 3, 4, mode])
        d = gen_sample(rng, name, key, n=n, max_clusters=max_clusters)
        d["loop_mode"] = mode
        d["points"] = gen_points(rng, n, mode)
        if rng.random() < 0.6:
            d["points"][0] = [0, 0]
        if rng.random() < 0.7:
            d["policy"] = "contiguous"
        return d
    return {"name": name, "key": key, "n": n, "points": gen_points(rng, n, mode), "loop_mode": mode,
            "cluster_top": weighted(rng, [(0, 6), (1, 2), (2, 1)]), "freq": rng.randint(0, 5), "orig_key": rng.randint(21, 108),
            "policy": rng.choice(R.POLICIES), "seed": rng.getrandbits(30), "end_marker": rng.choice([0xFFFF, 0xFFFF, 0xFFF8, 0xFFFB, 0xFFFE]),
            "sl_enable": rng.randint(0, 1), "sl_tune": rng.randint(0, 255), "rl_tune": rng.randint(0, 255)}


def gen_model(rng: random.Random, *, max_samples: int = 8, max_perf: int = 4, max_vols: int = 3, max_clusters: int = 3,
              share: bool = True, sparse: bool = True, long_bias: float = 0.0) -> dict:
    """Exact-arm model: sample names unique per disk, no L/R pairs, no sample reached through two patches of one performance."""
    keyc = [0]

    def key():
        keyc[0] += 1
        return "r%d.%d" % (rng.getrandbits(24), keyc[0])

    used: set = set()
    ns = rng.randint(1, max_samples)
    samples = [gen_sample(rng, safe_name(rng, used), key(), max_clusters=max_clusters, long_bias=long_bias) for _ in range(ns)]
    if share and rng.random() < 0.3:
        # one more sample that lives further inside another sample's cluster chain (same FAT entry, larger cluster_top)
        owners = [i for i, sm in enumerate(samples) if sm["n"] > R.CL // 2 + 8]
        if owners:
            j = rng.choice(owners)
            o = samples[j]
            kmax = (2 * o["n"] - 1) // R.CL
            d = rng.randint(1, kmax)
            n2 = o["n"] - d * (R.CL // 2)
            mode = rng.randint(0, 6)
            samples.append({"name": safe_name(rng, used), "key": o["key"], "key_offset": d * (R.CL // 2), "n": n2, "alias_of": j, "alias_skip": d,
                            "points": gen_points(rng, n2, mode), "loop_mode": mode, "cluster_top": o.get("cluster_top", 0) + d, "freq": rng.randint(0, 5),
                            "orig_key": rng.randint(21, 108), "policy": "contiguous", "seed": 0})
            ns += 1
    partials, patches, perfs = [], [], []
    pn = used          # one name space per disk: a patch (program) and a sample of one performance must not collide
    nperf = rng.randint(1, max_perf)
    for pi in range(nperf):
        # samples of this performance: a subset, each used by exactly one patch of the performance
        k = rng.randint(0 if rng.random() < 0.1 else 1, min(ns, 6))
        pool = rng.sample(range(ns), k) if (share or pi == 0) else []
        my_patches = []
        npatch = rng.randint(1, 3)
        buckets: List[List[int]] = [[] for _ in range(npatch)]
        for sidx in pool:
            buckets[rng.randrange(npatch)].append(sidx)
        for bk in buckets:
            my_partials = []
            # split the bucket into partials of <= 4 samples; a sample may repeat within one patch
            i = 0
            items = list(bk)
            if items and rng.random() < 0.3:
                items.append(rng.choice(items))
            while i < len(items) or not my_partials:
                take = items[i:i + rng.randint(1, 4)]
                i += max(1, len(take))
                pt = {"name": safe_name(rng, pn), "samples": take}
                if take and len(take) < 4 and rng.random() < 0.35:
                    pt["gaps"] = sorted(rng.sample(range(4), len(take)))       # e.g. slots (-1, X, -1, Y)
                partials.append(pt)
                my_partials.append(len(partials) - 1)
                if i >= len(items):
                    break
            patches.append({"name": safe_name(rng, pn), "partials": my_partials})
            my_patches.append(len(patches) - 1)
        if my_patches and rng.random() < 0.2:
            my_patches = my_patches + [rng.choice(my_patches)]          # the same patch assigned to two parts
        perfs.append({"name": safe_name(rng, pn), "patches": my_patches})
    nv = rng.randint(0, max_vols)
    vols = []
    vn: set = set()
    for vi in range(nv):
        k = rng.randint(0, nperf)
        pl = rng.sample(range(nperf), k)
        if pl and rng.random() < 0.2:
            pl = pl + [rng.choice(pl)]
        vols.append({"name": safe_name(rng, vn), "performances": pl})
    if sparse and rng.random() < 0.4:
        # entities scattered over their directory / parameter areas (unused slots in between, high slot numbers)
        for lst, lim in ((samples, 0x2000), (partials, 0x1000), (patches, 0x400), (perfs, 0x200)):
            top = rng.choice([len(lst) + 3, 40, lim, lim])
            chosen = rng.sample(range(min(lim, max(top, len(lst)))), len(lst))
            if rng.random() < 0.5:
                chosen.sort()
            if rng.random() < 0.3 and lst:
                chosen[rng.randrange(len(lst))] = lim - 1 if (lim - 1) not in chosen else chosen[0]
            if len(set(chosen)) == len(lst):
                for e, sl in zip(lst, chosen):
                    e["slot"] = sl
    return {"fat_version": rng.choice([1, 1, 2]), "fat_version_first": rng.random() < 0.1, "spare": rng.choice([0, 1, 5, 30]), "disk_name": "DISK %d" % rng.randint(0, 99),
            "samples": samples, "partials": partials, "patches": patches, "performances": perfs, "volumes": vols}


def expected_exports(model: dict) -> dict:
    out = {}
    groups = [(v["name"], sorted(set(v["performances"]))) for v in model["volumes"]]
    orph = R.orphan_performances(model)
    referenced = set()
    for _, ps in groups:
        referenced.update(ps)
    # the tool looks for orphans only when the volumes reference fewer distinct performances than the ID area counts
    if len(referenced) < len(model["performances"]):
        groups.append(("All Performances" if not model["volumes"] else "_Orphan_perf", orph))
    for vname, ps in groups:
        for p in ps:
            pf = model["performances"][p]
            seen = set()
            for sidx in R.referenced_samples(model, p):
                if sidx in seen:
                    continue
                seen.add(sidx)
                sm = model["samples"][sidx]
                out["%s/%s/%s.wav" % (vname, pf["name"], sm["name"])] = {"channels": [R.expected_pcm(sm)], "rate": R.expected_rate(sm),
                                                                        "exact_fill": (2 * sm["n"]) % R.CL == 0}
    return out
