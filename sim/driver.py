"""Batch driver: seeds -> scenarios -> runs -> violations -> shrink -> replay -> evidence."""
from __future__ import annotations

import argparse
import collections
import concurrent.futures as cf
import faulthandler
import importlib
import json
import multiprocessing
import os
import subprocess
import sys
import time
import traceback
from typing import Dict, List, Optional

VERIF = os.path.dirname(os.path.dirname(os.path.abspath(__file__)))
REPO = os.environ.get("VERIF_REPO", "/repo")

EXIT_OK, EXIT_VIOLATION, EXIT_HARNESS = 0, 1, 2

CLAIMED = ["C01", "C02", "C03", "C04", "C05", "C06", "C07", "C08", "C09",
           "C11", "C12", "C13", "C14", "C15", "C16", "C19"]


def setup_paths() -> None:
    if REPO not in sys.path[:1]:
        sys.path.insert(0, REPO)
    if VERIF not in sys.path:
        sys.path.insert(1, VERIF)


def import_tool_or_die() -> None:
    setup_paths()
    try:
        import smpl_extract  # noqa: F401
        import smpl_extract.actions  # noqa: F401
    except Exception:
        print("HARNESS-ERROR cannot import smpl_extract from %s" % REPO)
        traceback.print_exc()
        sys.exit(EXIT_HARNESS)
    import smpl_extract
    got = os.path.realpath(os.path.dirname(smpl_extract.__file__))
    want = os.path.realpath(os.path.join(REPO, "smpl_extract"))
    if got != want:
        print("HARNESS-ERROR smpl_extract imported from %s, expected %s" % (got, want))
        sys.exit(EXIT_HARNESS)


def load_prop(prop: str):
    return importlib.import_module("sim.props.%s" % prop.lower())


# --------------------------------------------------------------------------
# worker side
# --------------------------------------------------------------------------

RUN_CPU_CAP_S = 400          # user-CPU seconds one run may burn in this process; no run on the unchanged tree needs a twentieth of it


class RunCpuCapExceeded(BaseException):
    """Raised by the ITIMER_VIRTUAL handler: the run is burning CPU without finishing (a loop whose single iterations are
    expensive C calls escapes the logical step clock, e.g. a bytes object that grows on every pass)."""


def _on_cpu_cap(signum, frame):
    raise RunCpuCapExceeded()


def _guarded_run(mod, prop: str, scenario: dict):
    """mod.run(scenario) with the classification rules of DESIGN 10.2: a failing clean arm, a tool exception that reaches the
    harness where the unchanged tree never raises, an exhausted step budget or CPU cap are the tool's behaviour (violations);
    everything else propagates as a harness error."""
    import signal
    from sim.core import CleanArmFailed, RunResult
    from sim.seams import StepBudgetExceeded, StepClock
    timer = False
    try:
        signal.signal(signal.SIGVTALRM, _on_cpu_cap)
        cap = getattr(mod, "RUN_CPU_CAP_S", RUN_CPU_CAP_S)
        signal.setitimer(signal.ITIMER_VIRTUAL, cap)
        timer = True
    except ValueError:          # not in the main thread
        pass
    try:
        try:
            return mod.run(scenario)
        finally:
            if timer:
                signal.setitimer(signal.ITIMER_VIRTUAL, 0)
    except CleanArmFailed as e:
        res = RunResult()
        res.add(prop, "clean_arm_failed", "the fault-free arm failed, nothing to compare against: %s" % e)
        res.digest = "clean_arm_failed"
        return res
    except StepBudgetExceeded as e:
        StepClock.acknowledge()
        res = RunResult()
        res.add(prop, "no_result", "the tool exceeded the logical step budget (%s steps) at a point where the harness sets a budget far above "
                                   "what the unchanged tree needs" % (e.args[0] if e.args else "?"))
        res.digest = "no_result"
        return res
    except RunCpuCapExceeded:
        StepClock.acknowledge()
        res = RunResult()
        res.add(prop, "no_result", "the run burned more than %d s of CPU without finishing (the unchanged tree needs a small fraction of that)"
                % getattr(mod, "RUN_CPU_CAP_S", RUN_CPU_CAP_S))
        res.digest = "no_result_cpu"
        return res
    except Exception as e:      # noqa: BLE001
        # an exception raised INSIDE the tool that reached the harness at a point where the unchanged tree never
        # raises (constructing a view, a filter, a client ...) is the tool's behaviour, not a harness defect
        tb = traceback.extract_tb(e.__traceback__)
        repo_real = os.path.realpath(REPO) + os.sep
        inner = [f for f in tb if os.path.realpath(f.filename).startswith(repo_real)]
        if not inner or os.path.realpath(tb[-1].filename).startswith(os.path.realpath(VERIF) + os.sep):
            raise
        res = RunResult()
        res.add(prop, "unexpected_tool_exception", "%s: %s raised at %s:%d (%s), where the unchanged tree never raises" % (
            type(e).__name__, str(e)[:160], os.path.relpath(inner[-1].filename, repo_real), inner[-1].lineno, inner[-1].name), exc=type(e).__name__)
        res.digest = "unexpected_tool_exception"
        return res


def _run_indices(prop: str, base_seed: int, tier: str, indices: List[int], want_samples: int):
    from sim.core import rng_for, derive_seed
    mod = load_prop(prop)
    import sim.core as _core
    _core.CURRENT_BASE_SEED = base_seed
    out = []
    for idx in indices:
        try:
            rng = rng_for(base_seed, prop, idx)
            scenario = mod.gen(rng, tier, idx)
            res = _guarded_run(mod, prop, scenario)
            w = res.to_wire()
            w["idx"] = idx
            w["seed"] = derive_seed(base_seed, prop, idx)
            if res.violations or idx < want_samples:
                w["scenario"] = scenario
            out.append(w)
        except BaseException:        # noqa: BLE001
            out.append({"idx": idx, "harness_error": traceback.format_exc()})
    return out


def _worker_init():
    faulthandler.enable()
    setup_paths()


# --------------------------------------------------------------------------
# known findings
# --------------------------------------------------------------------------

def load_known(prop: str):
    path = os.path.join(VERIF, "known_findings.json")
    if not os.path.exists(path):
        return []
    with open(path) as fh:
        doc = json.load(fh)
    return [e for e in doc.get("findings", []) if e.get("property") == prop]


def match_known(entries, violation) -> Optional[dict]:
    for e in entries:
        if e.get("status") != "open":
            continue
        if e.get("class") != violation["class"]:
            continue
        feats = violation.get("features", {})
        if all(feats.get(k) == v for k, v in e.get("where", {}).items()):
            return e
    return None


# --------------------------------------------------------------------------
# main
# --------------------------------------------------------------------------

def repo_head() -> str:
    try:
        return subprocess.run(["git", "-C", REPO, "rev-parse", "HEAD"], capture_output=True, text=True, timeout=20).stdout.strip()
    except Exception:      # noqa: BLE001
        return "unknown"


def repo_dirty() -> bool:
    try:
        out = subprocess.run(["git", "-C", REPO, "status", "--porcelain", "--untracked-files=no"], capture_output=True, text=True, timeout=20).stdout
        return bool(out.strip())
    except Exception:      # noqa: BLE001
        return False


def run_scenario_once(prop: str, scenario: dict):
    mod = load_prop(prop)
    return _guarded_run(mod, prop, scenario)


def replay_main(prop: str, path: str) -> int:
    import_tool_or_die()
    with open(path) as fh:
        doc = json.load(fh)
    if doc.get("property") != prop:
        print("HARNESS-ERROR replay file is for %s" % doc.get("property"))
        return EXIT_HARNESS
    res = run_scenario_once(prop, doc["scenario"])
    want = doc.get("violation", {}).get("class")
    got = [v for v in res.violations if want is None or v.cls == want]
    if got:
        v = got[0]
        print("REPLAY reproduced class=%s detail=%s" % (v.cls, v.detail[:300]))
        if doc.get("digest") and res.digest and doc["digest"] != res.digest:
            print("NOTE: replay digest differs from the recorded one (%s vs %s)" % (res.digest, doc["digest"]))
        print("VIOLATION property=%s replay=%s" % (prop, path))
        return EXIT_VIOLATION
    others = [v.cls for v in res.violations]
    print("REPLAY did not reproduce class=%s (violations now: %s)" % (want, others))
    return EXIT_OK


def digest_main(prop: str, base_seed: int, tier: str, indices: List[int]) -> int:
    import_tool_or_die()
    out = _run_indices(prop, base_seed, tier, indices, 0)
    print("DIGESTS " + json.dumps({str(w["idx"]): w.get("d", "ERR") for w in out}, sort_keys=True))
    return EXIT_OK


def main(argv=None) -> int:
    argv = list(sys.argv[1:] if argv is None else argv)
    if argv and argv[0] == "selftest":
        import_tool_or_die()
        from sim import selftest
        return selftest.main(argv[1:])
    ap = argparse.ArgumentParser(prog="check")
    ap.add_argument("prop")
    ap.add_argument("--tier", default=os.environ.get("VERIF_TIER", "quick"), choices=["quick", "thorough"])
    ap.add_argument("--seed", type=int, default=None)
    ap.add_argument("--runs", type=int, default=None)
    ap.add_argument("--jobs", type=int, default=int(os.environ.get("VERIF_JOBS", "16")))
    ap.add_argument("--budget-s", type=float, default=None)
    ap.add_argument("--replay", default=None)
    ap.add_argument("--digest-indices", default=None, help=argparse.SUPPRESS)
    ap.add_argument("--no-shrink", action="store_true")
    ap.add_argument("--no-selfcheck", action="store_true")
    ap.add_argument("--keep-going", action="store_true", help="report every violation class, do not stop at first")
    args = ap.parse_args(argv)

    if args.prop == "selftest":
        from sim import selftest
        return selftest.main(argv[1:] if argv else sys.argv[2:])

    prop = args.prop.upper()
    if prop not in CLAIMED:
        print("HARNESS-ERROR unknown or unclaimed property %s" % prop)
        return EXIT_HARNESS
    from sim.core import DEFAULT_SEED
    base_seed = args.seed if args.seed is not None else int(os.environ.get("VERIF_SEED", DEFAULT_SEED))

    if args.replay:
        return replay_main(prop, args.replay)
    if args.digest_indices is not None:
        idxs = [int(x) for x in args.digest_indices.split(",") if x != ""]
        return digest_main(prop, base_seed, args.tier, idxs)

    import_tool_or_die()
    mod = load_prop(prop)
    t0 = time.monotonic()
    tier = args.tier
    n_runs = args.runs if args.runs is not None else mod.RUNS[tier]
    budget_s = args.budget_s if args.budget_s is not None else getattr(mod, "TIME_CAP", {}).get(tier, 900 if tier == "quick" else 3600)
    print("SEED %d property=%s tier=%s runs=%d jobs=%d repo=%s" % (base_seed, prop, tier, n_runs, args.jobs, REPO))
    sys.stdout.flush()

    known = load_known(prop)
    known_lines = []
    known_matched = collections.Counter()
    # 1. replay every open known finding first
    for e in known:
        if e.get("status") != "open":
            continue
        try:
            res = run_scenario_once(prop, e["scenario"])
        except BaseException:    # noqa: BLE001
            print("HARNESS-ERROR while replaying known finding %s" % e.get("id"))
            traceback.print_exc()
            return EXIT_HARNESS
        hit = [v for v in res.violations if match_known([e], v.to_json())]
        if hit:
            line = "KNOWN-FINDING: property=%s %s" % (prop, e["what"])
            print(line)
            known_lines.append(line)
        else:
            print("NOTE: known finding %s no longer reproduces" % e.get("id"))

    # 2. the batch
    want_samples = 3
    jobs = max(1, args.jobs)
    chunk = max(1, min(getattr(mod, "CHUNK", 64), n_runs // (jobs * 8) or 1))
    chunks = [list(range(i, min(n_runs, i + chunk))) for i in range(0, n_runs, chunk)]
    results: Dict[int, dict] = {}
    harness_errors = []
    timed_out = False
    ctx = multiprocessing.get_context("fork")
    if jobs == 1:
        for c in chunks:
            if time.monotonic() - t0 > budget_s:
                timed_out = True
                break
            for w in _run_indices(prop, base_seed, tier, c, want_samples):
                results[w["idx"]] = w
    else:
        with cf.ProcessPoolExecutor(max_workers=jobs, mp_context=ctx, initializer=_worker_init) as ex:
            pending = set()
            it = iter(chunks)
            try:
                def submit_more():
                    while len(pending) < jobs * 2:
                        if time.monotonic() - t0 > budget_s:
                            return False
                        c = next(it, None)
                        if c is None:
                            return False
                        pending.add(ex.submit(_run_indices, prop, base_seed, tier, c, want_samples))
                    return True
                submit_more()
                while pending:
                    done, _ = cf.wait(pending, timeout=600, return_when=cf.FIRST_COMPLETED)
                    if not done:
                        print("HARNESS-ERROR worker pool made no progress for 600 s")
                        for p in pending:
                            p.cancel()
                        ex.shutdown(wait=False, cancel_futures=True)
                        os._exit(EXIT_HARNESS)
                    for fut in done:
                        pending.discard(fut)
                        for w in fut.result():
                            results[w["idx"]] = w
                    submit_more()
                if next(it, None) is not None:
                    timed_out = True
            except cf.process.BrokenProcessPool:
                print("HARNESS-ERROR a worker process died (see stderr)")
                return EXIT_HARNESS

    ordered = [results[i] for i in sorted(results)]
    for w in ordered:
        if "harness_error" in w:
            harness_errors.append(w)
    if harness_errors:
        w = harness_errors[0]
        print("HARNESS-ERROR in run index %d (%d such runs):" % (w["idx"], len(harness_errors)))
        print(w["harness_error"])
        return EXIT_HARNESS

    # 3. classify violations
    unknown = []       # (idx, violation json, wire)
    for w in ordered:
        for v in w["v"]:
            e = match_known(known, v)
            if e is not None:
                known_matched[e["id"]] += 1
            else:
                unknown.append((w["idx"], v, w))
    for e in known:
        if e.get("status") == "open" and known_matched[e["id"]] and not any(e["what"] in l for l in known_lines):
            line = "KNOWN-FINDING: property=%s %s" % (prop, e["what"])
            print(line)
            known_lines.append(line)

    # 4. determinism self-check on a small sample, in a fresh interpreter with another hash seed
    det = {"checked": 0, "mismatch": 0}
    if not args.no_selfcheck and ordered:
        k = getattr(mod, "SELFCHECK_N", 8)
        step = max(1, len(ordered) // k)
        idxs = [w["idx"] for w in ordered[::step][:k]]
        env = dict(os.environ)
        env["PYTHONHASHSEED"] = "1" if os.environ.get("PYTHONHASHSEED", "0") != "1" else "2"
        env["VERIF_SEED"] = str(base_seed)
        try:
            p = subprocess.run([sys.executable, "-B", os.path.join(VERIF, "run_check.py"), prop, "--tier", tier,
                                "--seed", str(base_seed), "--digest-indices", ",".join(map(str, idxs))],
                               capture_output=True, text=True, timeout=600, env=env)
            line = [l for l in p.stdout.split("\n") if l.startswith("DIGESTS ")]
            if not line:
                print("HARNESS-ERROR determinism self-check produced no digests:\n%s\n%s" % (p.stdout[-2000:], p.stderr[-2000:]))
                return EXIT_HARNESS
            other = json.loads(line[0][len("DIGESTS "):])
            for i in idxs:
                det["checked"] += 1
                if other.get(str(i)) != results[i]["d"]:
                    det["mismatch"] += 1
            if det["mismatch"]:
                print("HARNESS-ERROR determinism self-check: %d of %d digests differ in a fresh interpreter" % (det["mismatch"], det["checked"]))
                return EXIT_HARNESS
        except subprocess.TimeoutExpired:
            print("HARNESS-ERROR determinism self-check timed out")
            return EXIT_HARNESS

    # 5. report + shrink + replay
    exit_code = EXIT_OK
    replay_paths = []
    if unknown:
        exit_code = EXIT_VIOLATION
        by_class = collections.OrderedDict()
        for idx, v, w in unknown:
            by_class.setdefault(v["class"], []).append((idx, v, w))
        classes = list(by_class.items())
        if not args.keep_going:
            # the violation with the smallest run index
            first_cls = min(by_class, key=lambda c: by_class[c][0][0])
            classes = [(first_cls, by_class[first_cls])]
        for cls, items in classes:
            idx, v, w = items[0]
            scenario = w.get("scenario")
            path = write_replay(prop, base_seed, idx, w["seed"], scenario, v, w.get("d", ""), mod, known,
                                shrink=not args.no_shrink)
            replay_paths.append(path)
            print("violation class=%s runs_affected=%d first_index=%d detail=%s" % (cls, len(items), idx, v.get("detail", "")[:400]))
            print("VIOLATION property=%s replay=%s" % (prop, path))
        if args.keep_going:
            print("classes: " + ", ".join("%s x%d" % (c, len(i)) for c, i in by_class.items()))
            feat = collections.Counter()
            for idx, v, w in unknown:
                feat[(v["class"], json.dumps(v.get("features", {}), sort_keys=True))] += 1
            for (c, f), k in feat.most_common(40):
                print("  %6d  %s %s" % (k, c, f))

    wall = time.monotonic() - t0
    write_evidence(mod, prop, tier, base_seed, ordered, wall, len(unknown), known_matched, known_lines, det, timed_out, n_runs)
    print("DONE property=%s runs=%d violations=%d known=%d wall=%.1fs%s" % (
        prop, len(ordered), len(unknown), sum(known_matched.values()), wall, " (time cap hit)" if timed_out else ""))
    return exit_code


def write_replay(prop, base_seed, idx, run_seed, scenario, v, digest, mod, known, shrink=True) -> str:
    from sim.shrink import Shrinker
    outdir = os.path.join(VERIF, "out", "replays")
    os.makedirs(outdir, exist_ok=True)
    cls = v["class"]
    info = {"attempts": 0, "accepted": 0}
    final = scenario
    final_v = v
    if shrink and scenario is not None:
        def still_fails(cand):
            res = run_scenario_once(prop, cand)
            for vv in res.violations:
                if vv.cls == cls and match_known(known, vv.to_json()) is None:
                    return True
            return False
        cfg = getattr(mod, "SHRINK", {})
        sh = Shrinker(still_fails, max_attempts=cfg.get("max_attempts", 300), max_seconds=cfg.get("max_seconds", 45.0),
                      frozen=cfg.get("frozen", ()), simple_values=cfg.get("simple_values"))
        try:
            final = sh.run(scenario)
        except BaseException:      # noqa: BLE001
            final = scenario
        info = {"attempts": sh.attempts, "accepted": sh.accepted}
        try:
            res = run_scenario_once(prop, final)
            vs = [vv for vv in res.violations if vv.cls == cls]
            if vs:
                final_v = vs[0].to_json()
                digest = res.digest
            else:
                final = scenario
        except BaseException:      # noqa: BLE001
            final = scenario
    safe_cls = "".join(c if c.isalnum() or c in "_-" else "_" for c in cls)[:40]
    path = os.path.join(outdir, "%s-%d-%d-%s.json" % (prop, base_seed, idx, safe_cls))
    doc = {"property": prop, "seed_base": base_seed, "run_index": idx, "run_seed": run_seed,
           "scenario": final, "violation": final_v, "digest": digest, "repo_head": repo_head(),
           "repo_dirty": repo_dirty(), "minimised": bool(shrink), "shrink": info}
    with open(path, "w") as fh:
        json.dump(doc, fh, indent=1, sort_keys=True)
    # replay in a fresh interpreter must reproduce
    try:
        p = subprocess.run([sys.executable, "-B", os.path.join(VERIF, "run_check.py"), prop, "--replay", path],
                           capture_output=True, text=True, timeout=600)
        if p.returncode != EXIT_VIOLATION:
            print("NOTE: fresh-interpreter replay of %s did not reproduce (exit %d); keeping the unminimised scenario" % (path, p.returncode))
            doc["scenario"] = scenario
            doc["minimised"] = False
            doc["violation"] = v
            with open(path, "w") as fh:
                json.dump(doc, fh, indent=1, sort_keys=True)
    except subprocess.TimeoutExpired:
        print("NOTE: fresh-interpreter replay timed out")
    return path


def write_evidence(mod, prop, tier, base_seed, ordered, wall, n_viol, known_matched, known_lines, det, timed_out, n_planned):
    probes = collections.Counter()
    faults = collections.Counter()
    steps = io = 0
    states = set()
    nontrivial_states = set()
    samples = []
    for w in ordered:
        probes.update(w["p"])
        faults.update(w["f"])
        steps += w["s"]
        io += w["io"]
        h = w["h"] or w["d"]
        states.add(h)
        if w["nt"]:
            nontrivial_states.add(h)
        if w.get("smp") is not None and len(samples) < 4:
            samples.append({"run_index": w["idx"], "run_seed": w["seed"], "case": w["smp"]})
    n = len(ordered)
    cov = {
        "evaluations": n,
        "distinct_nontrivial": len(nontrivial_states),
        "rule": getattr(mod, "RULE", ""),
        "samples": samples or [{"note": "no sample recorded"}],
        "exhaustive": bool(getattr(mod, "EXHAUSTIVE", {}).get(tier, False)) and not timed_out,
        "runs_planned": n_planned,
        "time_cap_hit": timed_out,
        "seeds": {"base": base_seed, "first_run_seed": ordered[0]["seed"] if ordered else None,
                  "last_run_seed": ordered[-1]["seed"] if ordered else None},
        "runs_per_hour": int(n / wall * 3600) if wall > 0 else 0,
        "simulated_time": {"unit": "logical steps (sys.monitoring PY_START+JUMP events) and seam I/O events; the code under test has no wall-clock semantics",
                           "steps_total": steps, "io_events_total": io},
        "faults_fired": dict(sorted(faults.items())),
        "probes": dict(sorted(probes.items())),
        "probes_stuck_at_zero": sorted(k for k in getattr(mod, "EXPECTED_PROBES", []) if probes.get(k, 0) == 0),
        "distinct_states": {"count": len(states), "measure": getattr(mod, "STATE_MEASURE", "distinct seam-event/stdout/output-tree digests")},
        "components": getattr(mod, "COMPONENTS", {}),
        "known_findings_matched": dict(known_matched),
        "known_finding_lines": known_lines,
        "determinism_selfcheck": det,
        "not_covered": getattr(mod, "NOT_COVERED", []),
        "repo_head": repo_head(),
        "repo_dirty": repo_dirty(),
    }
    extra = getattr(mod, "extra_evidence", None)
    if extra:
        try:
            cov.update(extra(ordered))
        except Exception:      # noqa: BLE001
            cov["extra_evidence_error"] = traceback.format_exc()[-400:]
    doc = {
        "property_id": prop, "tier": tier, "seed": base_seed, "level": mod.LEVEL,
        "coverage": cov, "assumptions": getattr(mod, "ASSUMPTIONS", []),
        "wall_s": round(wall, 2), "violations": n_viol,
    }
    os.makedirs(os.path.join(VERIF, "evidence"), exist_ok=True)
    tmp = os.path.join(VERIF, "evidence", "%s.json.tmp" % prop)
    with open(tmp, "w") as fh:
        json.dump(doc, fh, indent=1, sort_keys=True)
    os.replace(tmp, os.path.join(VERIF, "evidence", "%s.json" % prop))
    stuck = cov["probes_stuck_at_zero"]
    if stuck:
        print("WARNING probes stuck at zero: %s" % ", ".join(stuck))
