"""C03 - CDDA tracks tile the bin file exactly at the cue sheet's index positions (fault-free arm, weakest fit)."""
from __future__ import annotations

import os
import random

from ..core import RunResult, digest_of, jhash, tree_digest, weighted
from ..model import cdda as C
from ..model import wav as W
from ..seams import Sandbox, SimFile, StepClock, VirtualFS, knobs
from .. import tool
from ..gen_roland import safe_name

PROP = "C03"
LEVEL = "exploration"
RUNS = {"quick": 2500, "thorough": 120000}
TIME_CAP = {"quick": 300, "thorough": 900}
RULE = ("seeded cue sheets of 1-6 AUDIO tracks with strictly increasing first indices (one or several INDEX lines, with or without "
        "TITLE) over bins whose length is last-index*2352 + tail, tail drawn from {0..5, 2351, 2352, 2353, random}; opened through "
        "the virtual-FS seam; seeded transcoder block size; non-trivial = bin length not a multiple of 2352 or of 4, or >=2 tracks; "
        "distinct = hash of (indices, bin length, knob)")
STATE_MEASURE = "distinct (track first-indices, bin length, block-size knob) hashes"
COMPONENTS = {"real": ["smpl_extract.actions (cue path), cuesheet, cdda/image, util/stream, transcoder, generalized/wav", "construct", "numpy"],
              "stub": ["open() inside smpl_extract.actions is served by a virtual FS backed by SimFile (cross-checked against the real CLI on real files for 1 in 60 runs)",
                       "stdout captured", "output in a /dev/shm sandbox behind an audit hook"]}
ASSUMPTIONS = ["titles are safe unique words (hostile titles are C06's)", "all tracks AUDIO, first indices strictly increasing and inside the bin",
               "what simulation adds over plain generation here is only the torn-tail lengths, the block-size knob and the seam observation"]
EXPECTED_PROBES = ["minutes_gt_0", "seconds_gt_0", "tail_not_multiple_of_4", "tail_not_multiple_of_2352", "multi_index", "untitled", "tracks_ge_3", "bin_in_subdirectory", "keywords_not_upper_case", "dotted_titles", "blank_lines_between_entries", "knob_not_default",
                   "empty_last_track", "cli_crosscheck", "first_track_not_at_zero", "exported_twice", "keyword_like_title", "lr_titles", "cue_no_final_newline", "cue_crlf", "cue_larger_than_8k"]
SHRINK = {"max_attempts": 300, "max_seconds": 40.0, "simple_values": {"block": [4096]}}
KNOBS = [4, 8, 64, 510, 4096, 4096, 4096, 8192, 65536]
CLI_EVERY = 60


def gen_cdda_model(rng: random.Random, *, titles: str = "safe") -> dict:
    nt = weighted(rng, [(1, 2), (2, 3), (3, 3), (rng.randint(4, 6), 2), (rng.randint(90, 99), 0.25)])
    sector = rng.choice([0, 0, 0, 1, 2, 75, 150, rng.randint(0, 30)])
    if rng.random() < 0.12:
        # minutes and seconds > 0: bins of tens of MB (content is periodic, see model/cdda.py)
        sector = (rng.randint(0, 2) * 60 + rng.randint(0, 59)) * 75 + rng.randint(0, 74)
    tracks = []
    used: set = set()
    for i in range(nt):
        mm, ss, ff = C.msf(sector)
        idxs = [[1, mm, ss, ff]]
        k = rng.random()
        if k < 0.25:
            # INDEX 00 (pregap) first, then INDEX 01 later: the *first* index line positions the track
            gap = rng.randint(0, 3)
            m2, s2, f2 = C.msf(sector + gap)
            idxs = [[0, mm, ss, ff], [1, m2, s2, f2]]
        elif k < 0.35:
            m2, s2, f2 = C.msf(sector + rng.randint(1, 4))
            idxs = [[1, mm, ss, ff], [2, m2, s2, f2]]
        title = None if rng.random() < 0.3 else safe_name(rng, used)
        if nt > 50:
            # a full disc: 90-99 tracks with long titles make a cue sheet of more than 8 KiB
            title = ("Track %02d " % (i + 1)) + "".join(rng.choice("abcdefghijklmnopqrstuvwxyz ") for _ in range(48)).strip()
            used.add(title)
        if title is not None and rng.random() < 0.12:
            # titles are free text: they may look like cue keywords or like one half of an L/R pair
            title = rng.choice(["Bonus Track %d remix" % rng.randint(1, 9), "Track %02d Audio" % (i + 2), "Index 01 live", "INDEX 01 00 00 %02d" % rng.randint(0, 9),
                                "File x Binary", "Title", "Side %d L" % (i // 2), "Side %d R" % (i // 2), "Drums-%s" % "LR"[i % 2], "REM note"])
            if title in used:
                title = title + " %d" % i
            used.add(title)
        tracks.append({"num": i + 1, "mode": rng.choice(["AUDIO", "AUDIO", "audio", "Audio"]), "title": title, "indices": idxs})
        sector += rng.randint(1, 8)
    if nt >= 2 and rng.random() < 0.1:
        # two tracks titled like the halves of a stereo pair: CDDA tracks are already stereo and stay separate files
        a, b = rng.sample(range(nt), 2)
        stem, sep = safe_name(rng, used, 10), rng.choice([" ", "-", " - "])
        tracks[a]["title"], tracks[b]["title"] = stem + sep + "L", stem + sep + "R"
    if nt >= 2 and rng.random() < 0.12:
        # titles keep their periods: "Suite No.1" and "Suite No.2" are two different files
        a, b = rng.sample(range(nt), 2)
        stem = safe_name(rng, used, 10) + rng.choice([" No.", ".", " v1.", ".part"])
        tracks[a]["title"], tracks[b]["title"] = stem + "1", stem + "2"
    last = C.first_sector(tracks[-1])
    tail = weighted(rng, [(0, 2), (1, 1), (2, 1), (3, 1), (4, 1), (5, 1), (2351, 1), (2352, 2), (2353, 1), (rng.randint(0, 4 * 2352), 4)])
    # the FILE entry is a path relative to the cue sheet; keywords are case-insensitive
    bin_name = weighted(rng, [("disc.bin", 6), ("DISC.BIN", 1), ("audio/disc.bin", 1), ("rips/cd 1/disc.img", 1), ("my disc (1).bin", 1),
                              ("../disc.bin", 1)])
    kw_case = weighted(rng, [(None, 6), ("lower", 1), ("title", 1)])
    return {"bin_name": bin_name, "kw_case": kw_case, "bin_key": "cd%d" % rng.getrandbits(30), "bin_len": last * C.SECTOR + tail, "tracks": tracks}


def gen(rng: random.Random, tier: str, index: int) -> dict:
    return {"model": gen_cdda_model(rng), "block": rng.choice(KNOBS), "cli": index % CLI_EVERY == 5,
            # how the editor that wrote the cue sheet ended its lines
            "cue_text_style": rng.choice([None, None, None, "no_final_newline", "no_final_newline", "crlf", "crlf_no_final_newline"]),
            "inner_blank": [rng.choice(["   ", "\t", " \t ", ""]), rng.choice([1, 1, 2, 3])] if rng.random() < 0.2 else None}


def check_tracks(res: RunResult, prop: str, model: dict, er: tool.ExportResult, ctx: str = "") -> None:
    exp = C.expected_tracks(model)
    if er.exc:
        res.add(prop, "export_exception", "%sexport raised %s: %s [%s]" % (ctx, er.exc, er.exc_msg, er.exc_tb), exc=er.exc)
    want_paths = [t + ".wav" for t, _ in exp]
    if er.reported != want_paths and not er.exc:
        res.add(prop, "track_set", "%sreported %s, model %s (one file per track, in track order)" % (ctx, er.reported[:6], want_paths[:6]))
    if set(er.reported) != set(er.tree):
        res.add(prop, "reported_vs_disk", "%sreported %s, on disk %s" % (ctx, sorted(er.reported)[:6], sorted(er.tree)[:6]))
    concat = b""
    ok_concat = True
    for title, pcm in exp:
        p = title + ".wav"
        if p not in er.tree:
            ok_concat = False
            continue
        try:
            info = W.walk(er.tree[p])
        except W.WavInvalid as x:
            res.add(prop, "invalid_wav", "%s%s: %s" % (ctx, p, x), reason=x.reason)
            ok_concat = False
            continue
        if (info.channels, info.bits, info.rate) != (2, 16, 44100):
            res.add(prop, "format", "%s%s: %d ch, %d bit, %d Hz" % (ctx, p, info.channels, info.bits, info.rate))
        if info.pcm != pcm:
            kind = "pcm_short" if pcm.startswith(info.pcm) else ("pcm_long" if info.pcm.startswith(pcm) else "pcm_wrong")
            res.add(prop, kind, "%s%s: %d bytes, model %d bytes (bin slice)" % (ctx, p, len(info.pcm), len(pcm)))
        concat += info.pcm
    if ok_concat and not res.violations:
        data = C.bin_bytes(model)
        a = C.first_sector(model["tracks"][0]) * C.SECTOR
        want = data[a:]
        want = want[:len(want) - (len(want) % 4)]
        if concat != want:
            res.add(prop, "tiling", "%sconcatenated tracks (%d bytes) != bin from the first index (%d bytes)" % (ctx, len(concat), len(want)))


def run(sc: dict) -> RunResult:
    res = RunResult()
    model = sc["model"]
    block = sc.get("block", 4096)
    data = C.bin_bytes(model)
    text = C.cue_text(model)
    style = sc.get("cue_text_style")
    if style == "no_final_newline":
        text = text.rstrip("\n")
    elif style == "crlf":
        text = text.replace("\n", "\r\n")
    elif style == "crlf_no_final_newline":
        text = text.rstrip("\n").replace("\n", "\r\n")
    if style:
        res.probes["cue_" + style] += 1
    if sc.get("inner_blank"):
        # editors leave lines that hold only blanks or a tab between the entries
        blank, every = sc["inner_blank"]
        nl = "\r\n" if "\r\n" in text else "\n"
        parts = text.split(nl)
        out = []
        for j, ln in enumerate(parts):
            out.append(ln)
            if ln.strip() and j % every == 0 and j < len(parts) - 1:
                out.append(blank)
        text = nl.join(out)
        res.probes["blank_lines_between_entries"] += 1
    cue = text.encode("ascii")
    n = model["bin_len"]
    nontrivial = len(model["tracks"]) >= 2
    if n % 4:
        res.probes["tail_not_multiple_of_4"] += 1
        nontrivial = True
    if n % C.SECTOR:
        res.probes["tail_not_multiple_of_2352"] += 1
        nontrivial = True
    if any(len(t["indices"]) > 1 for t in model["tracks"]):
        res.probes["multi_index"] += 1
    if any(t.get("title") is None for t in model["tracks"]):
        res.probes["untitled"] += 1
    ts = [t.get("title") or "" for t in model["tracks"]]
    if any(x.lower().startswith(("bonus track", "track", "index", "file", "title", "rem")) for x in ts):
        res.probes["keyword_like_title"] += 1
    if any(x.endswith((" L", "-L")) for x in ts) and any(x.endswith((" R", "-R")) for x in ts):
        res.probes["lr_titles"] += 1
    if sum(1 for x in ts if "." in x) >= 2:
        res.probes["dotted_titles"] += 1
    if len(C.cue_text(model)) > 8192:
        res.probes["cue_larger_than_8k"] += 1
    if "/" in model["bin_name"]:
        res.probes["bin_in_subdirectory"] += 1
    if model.get("kw_case"):
        res.probes["keywords_not_upper_case"] += 1
    if len(model["tracks"]) >= 3:
        res.probes["tracks_ge_3"] += 1
    if block != 4096:
        res.probes["knob_not_default"] += 1
    if any(i[1] > 0 for t in model["tracks"] for i in t["indices"]):
        res.probes["minutes_gt_0"] += 1
    if any(i[2] > 0 for t in model["tracks"] for i in t["indices"]):
        res.probes["seconds_gt_0"] += 1
    if C.first_sector(model["tracks"][0]) > 0:
        res.probes["first_track_not_at_zero"] += 1
    if n - C.first_sector(model["tracks"][-1]) * C.SECTOR < 4:
        res.probes["empty_last_track"] += 1
    vfs = VirtualFS({"/vfs/sheets/disc.cue": cue, "/vfs/sheets/" + model["bin_name"]: data})
    with Sandbox("c03") as sb, knobs(block), vfs.installed(), StepClock(30_000_000) as clk:
        image, r0 = tool.open_image("/vfs/sheets/disc.cue")
        if image is None:
            res.add(PROP, "open_failed", "determine_image_type raised %s: %s [%s]" % (r0.exc, r0.exc_msg, r0.exc_tb), exc=r0.exc)
            er = tool.ExportResult()
        else:
            if type(image).__name__ != "CompactDiskAudioImage":
                res.add(PROP, "not_cdda", "an all-audio cue sheet was opened as %s" % type(image).__name__)
            er = tool.run_export(image, sb)
            if er.budget:
                res.add(PROP, "no_result", "export exceeded the step budget")
            check_tracks(res, PROP, model, er)
            if sc.get("twice", True) and not res.violations:
                # the same opened image exported once more must tile the bin in the same way
                er_b = tool.run_export(image, sb, "again")
                if tree_digest(er_b.tree) != tree_digest(er.tree):
                    check_tracks(res, PROP, model, er_b, ctx="[second export of the same image] ")
                    if not res.violations:
                        res.add(PROP, "second_export_differs", "second export of the same opened image differs from the first")
                res.probes["exported_twice"] += 1
            if er.escapes:
                res.add(PROP, "write_outside_destination", repr(er.escapes[:3]))
    sfs = list(vfs.simfiles.values())
    if any(s.writes for s in sfs):
        res.add(PROP, "image_written", "the bin file object was written to")
    res.steps = clk.steps
    res.io_events = sum(s.io_events for s in sfs)
    out_digest = tree_digest(er.tree)
    if sc.get("cli") and not res.violations:
        res.probes["cli_crosscheck"] += 1
        rc, out, tree = tool.cli_export({"sheets/disc.cue": cue, os.path.normpath("sheets/" + model["bin_name"]): data}, "sheets/disc.cue")
        er2 = tool.ExportResult(stdout=out, reported=[l[9:] for l in out.split("\n") if l.startswith("Exported ")], tree=tree)
        check_tracks(res, PROP, model, er2, ctx="[real CLI] ")
    res.digest = digest_of([s.event_digest() for s in sfs], er.stdout, out_digest, [v.cls for v in res.violations])
    res.state_hash = jhash([[t["indices"] for t in model["tracks"]], n, block])
    res.nontrivial = nontrivial
    res.sample = {"tracks": [(t.get("title"), t["indices"]) for t in model["tracks"]], "bin_len": n, "block": block}
    return res
