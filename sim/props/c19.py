"""C19 - de-emphasis filters give the same output however the signal is split into blocks.

System: a stateful consumer (the real, compiled filter) fed by a producer whose
block boundaries the seeded scheduler chooses.  Reference: the one-block run of a
fresh instance of the same filter; for the 16-bit presets also a Python
re-statement of the recurrence to catch wrap-around instead of saturation.
"""
from __future__ import annotations

import hashlib
import os
import random
from typing import List

from ..core import RunResult, ScenarioInvalid, digest_of, jhash, pcm_bytes, weighted
from ..seams import StepClock

PROP = "C19"
LEVEL = "exploration"
RUNS = {"quick": 9000, "thorough": 400000}
TIME_CAP = {"quick": 300, "thorough": 900}
RULE = ("enumerated block: every composition (ordered split into non-empty blocks) of signals of length 1..8 (thorough 1..12) for each of "
        "7 filter configurations; then seeded schedules: random splits (blocks of length 1, shorter/equal/longer than the filter memory) "
        "of random, extreme-valued and alternating-sign signals up to 5000 samples into FirFilter (1-9 random taps, every delay offset), "
        "IirFilter (random stable B/A, orders 1-3), the CDXtract and ChickenSys presets and ChickSysCustom filters with gains > 1; "
        "non-trivial = >=2 blocks; distinct = hash of (filter configuration, block lengths)")
STATE_MEASURE = "distinct (filter configuration, ordered block lengths) hashes = distinct schedules"
COMPONENTS = {"real": ["smpl_extract.filters.fir / iir (the compiled extension modules shipped in the working tree)", "smpl_extract.filters.common", "numpy"],
              "stub": []}
ASSUMPTIONS = ["the compiled extensions cannot be rebuilt here (no Cython): the verdict concerns the .so files present, see coverage.build"]
EXPECTED_PROBES = ["fir", "iir", "cdxtract", "chicksys_fir", "chicksys_iir_preset", "chicksys_iir_custom", "block_len_1", "block_longer_than_4096",
                   "block_shorter_than_memory", "extreme_signal", "silence_in_signal", "saturated", "reset_checked", "many_blocks", "twin_instance"]
SHRINK = {"max_attempts": 400, "max_seconds": 30.0}
ENUM_FILTERS = [
    {"kind": "fir", "taps": [0.5, 0.25, -0.125], "m0": 0}, {"kind": "fir", "taps": [0.3, 0.3, 0.2, 0.2], "m0": 2},
    {"kind": "iir", "B": [0.6, 0.2], "A": [1.0, -0.3]}, {"kind": "cdxtract"}, {"kind": "cs_fir"},
    {"kind": "cs_iir", "preset": "standard"}, {"kind": "cs_iir_custom", "coeffs": [1.4, 0.5, 0.6]},
]


def _enum_max(tier: str) -> int:
    return 8 if tier == "quick" else 12


def _enum_count(tier: str) -> int:
    return len(ENUM_FILTERS) * sum(2 ** (n - 1) for n in range(1, _enum_max(tier) + 1))


def _enum_scenario(tier: str, index: int) -> dict:
    per = sum(2 ** (n - 1) for n in range(1, _enum_max(tier) + 1))
    fi, r = divmod(index, per)
    n = 1
    while r >= 2 ** (n - 1):
        r -= 2 ** (n - 1)
        n += 1
    # r encodes which of the n-1 gaps are cut
    splits, cur = [], 1
    for g in range(n - 1):
        if (r >> g) & 1:
            splits.append(cur)
            cur = 1
        else:
            cur += 1
    splits.append(cur)
    f = ENUM_FILTERS[fi]
    return {"filter": f, "signal": {"key": "enum%d" % n, "n": n, "style": ("extreme" if f["kind"] == "cs_fir" else "burst_then_silence") if f["kind"].startswith("cs") else "random",
                                    "dtype": "int16"}, "splits": splits, "enumerated": True}


def gen(rng: random.Random, tier: str, index: int) -> dict:
    if index < _enum_count(tier):
        return _enum_scenario(tier, index)
    kind = weighted(rng, [("fir", 4), ("iir", 3), ("cdxtract", 2), ("cs_fir", 3), ("cs_iir", 2), ("cs_iir_custom", 2), ("cs_fir_custom", 1)])
    if kind == "fir":
        nt = rng.randint(1, 9)
        f = {"kind": "fir", "taps": [round(rng.uniform(-1, 1), 4) for _ in range(nt)], "m0": rng.randint(0, nt - 1)}
        mem = nt - 1
    elif kind == "iir":
        order = rng.randint(1, 3)
        # stable: poles inside the unit circle via small feedback coefficients
        A = [1.0] + [round(rng.uniform(-0.3, 0.3), 4) for _ in range(order)]
        B = [round(rng.uniform(-1, 1), 4) for _ in range(rng.randint(1, 4))]
        if rng.random() < 0.3:
            A[0] = rng.choice([2.0, 0.5, 1.5])
        f = {"kind": "iir", "B": B, "A": A}
        mem = max(len(B) - 1, order)
    elif kind == "cdxtract":
        f, mem = {"kind": "cdxtract"}, 7
    elif kind == "cs_fir":
        f, mem = {"kind": "cs_fir"}, 18
    elif kind == "cs_iir":
        f, mem = {"kind": "cs_iir", "preset": rng.choice(["standard", "darker", "special"])}, 1
    elif kind == "cs_iir_custom":
        f, mem = {"kind": "cs_iir_custom", "coeffs": [round(rng.uniform(0.5, 2.0), 4), round(rng.uniform(-1.0, 1.5), 4), round(rng.uniform(-0.9, 0.9), 4)]}, 1
    else:
        nt = rng.randint(1, 7)
        f = {"kind": "cs_fir_custom", "taps": [rng.randint(-20000, 32767) for _ in range(nt)], "m0": rng.randint(0, nt - 1), "k": rng.choice([1, 7, 1000, 32767, 52067])}
        mem = nt - 1
    n = weighted(rng, [(rng.randint(1, 12), 2), (rng.randint(12, 200), 4), (rng.randint(200, 5000), 2)])
    style = weighted(rng, [("random", 4), ("extreme", 3), ("alternating", 2), ("dc", 1), ("sparse", 2), ("burst_then_silence", 2), ("clipped_mixed", 3)])
    dtype = "int16" if kind.startswith("cs") else rng.choice(["int16", "float64", "int16"])
    # FIR-family scenarios spend half of their runs outside the open known finding (every block >= taps-1),
    # so that the short-block defect cannot starve coverage of everything else
    mode = weighted(rng, [("ones", 2), ("short", 3), ("around_mem", 3), ("mixed", 4), ("two", 2),
                          ("long_blocks", 14 if kind in ("fir", "cdxtract", "cs_fir", "cs_fir_custom") else 3)])
    if rng.random() < 0.06:
        # whole samples handed over in one go: blocks a little over a power of two (any internal chunking of a big block must
        # carry the history exactly as separate calls do); every block is longer than the filter memory
        mode = "big_blocks"
        splits = []
        for _ in range(rng.randint(1, 3)):
            base = rng.choice([1024, 2048, 4096, 4096, 4096, 8192, 8192, 16384])
            splits.append(base * rng.randint(1, 2) + rng.choice([0, 1, 2, 3, 5, 6, 7, 11, 17, 18, 19, rng.randint(0, 40), rng.randint(0, 4096)]))
        n = sum(splits)
        return {"filter": f, "signal": {"key": "sig%d" % rng.getrandbits(30), "n": n, "style": style, "dtype": dtype}, "splits": splits,
                "reset_check": rng.random() < 0.3, "twin": rng.random() < 0.3, "big": True}
    splits, left = [], n
    while left > 0:
        if mode == "ones":
            b = 1
        elif mode == "short":
            b = rng.randint(1, max(1, mem))
        elif mode == "around_mem":
            b = max(1, mem + rng.choice([-1, 0, 0, 1, 2]))
        elif mode == "long_blocks":
            b = max(1, mem) + rng.choice([0, 0, 1, 2, 5, rng.randint(0, 40)])
            if left - b < max(1, mem):
                b = left          # never leave a short remainder
        elif mode == "two":
            b = rng.randint(1, left) if not splits else left
        else:
            b = rng.choice([1, 2, rng.randint(1, max(1, mem)), rng.randint(1, 64), rng.randint(1, max(1, left))])
        b = min(b, left)
        splits.append(b)
        left -= b
    return {"filter": f, "signal": {"key": "sig%d" % rng.getrandbits(30), "n": n, "style": style, "dtype": dtype}, "splits": splits,
            "reset_check": rng.random() < 0.3,
            # a second instance of the same filter (the other channel of a stereo sample) fed alternately with this one
            "twin": rng.random() < 0.3}


# --------------------------------------------------------------------------

def _make_filter(f: dict):
    import numpy as np
    from smpl_extract.filters import common
    from smpl_extract.filters.fir import ChickSysCustomFirFilter, FirFilter
    from smpl_extract.filters.iir import ChickSysCustomIirFilter, IirFilter
    k = f["kind"]
    if k == "fir":
        return FirFilter(np.asarray(f["taps"], dtype=np.float64), f.get("m0", 0)), len(f["taps"]), "fir"
    if k == "iir":
        return IirFilter(np.asarray(f["B"], dtype=np.float64), np.asarray(f["A"], dtype=np.float64)), 0, "iir"
    if k == "cdxtract":
        return common.CdXtractRolandDeemphFilter(), 8, "fir"
    if k == "cs_fir":
        return common.ChickSysRolandDeemphFilter(), 19, "fir"
    if k == "cs_fir_custom":
        return ChickSysCustomFirFilter(np.asarray(f["taps"], dtype=np.int16), f.get("m0", 0), f.get("k", 1)), len(f["taps"]), "fir"
    if k == "cs_iir":
        cls = {"standard": common.ChickSysStandardDeemphFilter, "darker": common.ChickSysDarkerDeemphFilter,
               "special": common.ChickSysSpecialDeemphFilter}[f["preset"]]
        return cls(), 0, "iir"
    if k == "cs_iir_custom":
        return ChickSysCustomIirFilter(tuple(f["coeffs"])), 0, "iir"
    raise ScenarioInvalid("filter kind")


def _signal(sg: dict):
    import numpy as np
    n = sg["n"]
    raw = np.frombuffer(pcm_bytes(sg["key"], n), dtype="<i2").astype(np.int16)
    st = sg["style"]
    if st == "extreme":
        x = np.where(raw >= 0, 32767, -32768).astype(np.int16)
    elif st == "alternating":
        x = np.asarray([32767 if i % 2 == 0 else -32768 for i in range(n)], dtype=np.int16)
        # flip phase at pseudo-random places so every tap sign pattern occurs
        x = np.where(raw % 7 == 0, -x - 1, x).astype(np.int16)
    elif st == "dc":
        x = np.full(n, 32767 if raw[0] >= 0 else -32768, dtype=np.int16)
    elif st == "clipped_mixed":
        # clipped full-scale samples next to tiny ones: exact-integer results where summation order shows
        pick = raw % 5
        x = np.where(pick == 0, 32767, np.where(pick == 1, -32768, np.where(pick == 2, -1, np.where(pick == 3, 1, 0)))).astype(np.int16)
    elif st == "sparse":
        # impulses separated by runs of digital silence (a filter's tail must keep ringing through the zeros)
        x = np.where(raw % 11 == 0, raw, 0).astype(np.int16)
    elif st == "burst_then_silence":
        k = max(1, n // 3)
        x = raw.copy()
        x[k:] = 0
    else:
        x = raw
    if sg.get("dtype") == "float64":
        return x.astype(np.float64) / 3.0
    return x


def _run_blocks(flt, x, splits):
    import numpy as np
    outs = []
    pos = 0
    for b in splits:
        outs.append(np.asarray(flt.process(x[pos:pos + b])))
        pos += b
    outs.append(np.asarray(flt.get_remaining()))
    return np.concatenate([o.astype(np.float64) for o in outs]) if outs else np.zeros(0)


def _rha(v: float) -> float:
    import math
    return math.floor(v + 0.5) if v >= 0 else -math.floor(-v + 0.5)


def _model_cs(f: dict, x) -> List[float]:
    """Python re-statement of the two ChickenSys recurrences (unbounded value, bounded value)."""
    import math
    k = f["kind"]
    out = []
    if k in ("cs_fir", "cs_fir_custom"):
        from smpl_extract.filters import common
        if k == "cs_fir":
            h = [int(v) for v in common._chick_sys_roland_deemph_h]
            m0, kg = common._chick_sys_roland_deemph_delay_offset, common._chick_sys_roland_deemph_k_gain
        else:
            h, m0, kg = f["taps"], f.get("m0", 0), f.get("k", 1)
        N = len(h)
        m1 = N - m0 - 1
        xs = [0] * m1 + [int(v) for v in x] + [0] * m0
        for i in range(len(xs) - N + 1):
            acc = 0.0
            for j in range(N):
                acc += _rha(float(xs[i + j] * h[N - 1 - j]) / kg)
            out.append(acc)
        return out
    if k == "cs_iir":
        from smpl_extract.filters import common
        c = {"standard": (0.5923, 0.1516, 0.2560), "darker": (0.7071, 0.1213, 0.1716),
             "special": (22082 / 32767, 4967 / 32767, 8411 / 32767)}[f["preset"]]
    else:
        c = f["coeffs"]
    xp, yp = 0.0, 0.0
    for v in x:
        xv = float(v)
        y = (c[0] * xv + c[1] * xp) - (-c[2]) * yp
        out.append(y)
        yp = max(-32767.0, min(32767.0, y))
        xp = xv
    return out


def run(sc: dict) -> RunResult:
    import numpy as np
    res = RunResult()
    f, sg, splits = sc["filter"], sc["signal"], sc["splits"]
    n = sg["n"]
    if n < 1 or not splits or any(b < 1 for b in splits) or sum(splits) != n:
        raise ScenarioInvalid("splits do not partition the signal")
    x = _signal(sg)
    flt, taps, family = _make_filter(f)
    kind = f["kind"]
    probe = {"fir": "fir", "iir": "iir", "cdxtract": "cdxtract", "cs_fir": "chicksys_fir", "cs_fir_custom": "chicksys_fir",
             "cs_iir": "chicksys_iir_preset", "cs_iir_custom": "chicksys_iir_custom"}[kind]
    res.probes[probe] += 1
    mem = max(0, taps - 1)
    if min(splits) == 1:
        res.probes["block_len_1"] += 1
    if max(splits) > 4096:
        res.probes["block_longer_than_4096"] += 1
    short_block = family == "fir" and min(splits) < mem
    if family == "fir" and min(splits) < max(mem, 1) or (family == "iir" and min(splits) <= 1):
        res.probes["block_shorter_than_memory"] += 1
    if sg["style"] in ("extreme", "alternating", "dc"):
        res.probes["extreme_signal"] += 1
    if sg["style"] in ("sparse", "burst_then_silence"):
        res.probes["silence_in_signal"] += 1
    if len(splits) >= 8:
        res.probes["many_blocks"] += 1
    feats = dict(family=family, short_block=bool(short_block), single_tap=(family == "fir" and taps == 1), kind=kind)
    with StepClock(50_000_000) as clk:
        try:
            ref_f, _, _ = _make_filter(f)
            ref = _run_blocks(ref_f, x, [n])
            if sc.get("twin"):
                res.probes["twin_instance"] += 1
                other, _, _ = _make_filter(f)
                x2 = _signal(dict(sg, key=sg["key"] + ".twin"))
                outs, pos = [], 0
                for b in splits:
                    outs.append(np.asarray(flt.process(x[pos:pos + b])))
                    other.process(x2[pos:pos + b])          # the other channel's block, between two blocks of this one
                    pos += b
                outs.append(np.asarray(flt.get_remaining()))
                got = np.concatenate([o.astype(np.float64) for o in outs])
            else:
                got = _run_blocks(flt, x, splits)
        except Exception as e:      # noqa: BLE001
            res.add(PROP, "filter_exception", "%s: %s (filter %s, splits %s)" % (type(e).__name__, str(e)[:100], f, splits[:12]), **feats)
            ref = got = None
        if got is not None:
            if len(got) != n or len(ref) != n:
                res.add(PROP, "split_dependence" if len(ref) == n else "output_count",
                        "%d samples in, %d out when fed as %s blocks, %d out as one block (filter %s)" % (n, len(got), splits[:12], len(ref), f), **feats)
            elif not np.array_equal(got, ref):
                tol_ok = sg.get("dtype") == "float64" and np.allclose(got, ref, rtol=0, atol=1e-9 * n)
                if not tol_ok:
                    i = int(np.argmax(got != ref))
                    res.add(PROP, "split_dependence", "output sample %d is %r when fed as blocks %s but %r as one block (filter %s)" % (
                        i, got[i], splits[:12], ref[i], f), **feats)
            # saturation instead of wrap-around for the 16-bit presets
            if kind.startswith("cs") and len(ref) == n:
                model = _model_cs(f, x)
                lo = -32768.0 if kind.startswith("cs_fir") else -32767.0
                for i, (m, r) in enumerate(zip(model, ref)):
                    mb = max(lo, min(32767.0, m))
                    if m > 32767 or m < lo:
                        res.probes["saturated"] += 1
                    if abs(r - mb) > 1.0:
                        res.add(PROP, "saturation", "sample %d: filter gives %r, recurrence gives %.1f (bounded %.1f) - wrap-around or wrong limit (filter %s)" % (i, r, m, mb, f), **feats)
                        break
            # reset makes the filter behave like a new one
            if sc.get("reset_check") and not res.violations:
                res.probes["reset_checked"] += 1
                try:
                    flt.process(x[: max(1, n // 2)])
                    flt.reset_state()
                    again = _run_blocks(flt, x, [n])
                    if len(again) != len(ref) or not np.array_equal(again, ref):
                        res.add(PROP, "reset", "after reset_state the filter differs from a new instance (filter %s)" % (f,), **feats)
                except Exception as e:      # noqa: BLE001
                    res.add(PROP, "filter_exception", "reset path: %s: %s" % (type(e).__name__, str(e)[:100]), **feats)
    res.steps = clk.steps
    res.digest = digest_of(None if got is None else got.tobytes(), [v.cls for v in res.violations])
    res.state_hash = jhash([f, splits])
    res.nontrivial = len(splits) >= 2
    res.sample = {"filter": f, "signal": {k: v for k, v in sg.items()}, "splits": splits[:16], "n_blocks": len(splits)}
    return res


def extra_evidence(ordered) -> dict:
    """Which binaries were tested (the extensions cannot be rebuilt here)."""
    repo = os.environ.get("VERIF_REPO", "/repo")
    d = os.path.join(repo, "smpl_extract", "filters")
    info = {}
    try:
        for fn in sorted(os.listdir(d)):
            p = os.path.join(d, fn)
            if fn.endswith((".pyx", ".so", ".py")):
                with open(p, "rb") as fh:
                    info[fn] = {"sha256": hashlib.sha256(fh.read()).hexdigest()[:16], "mtime": int(os.path.getmtime(p))}
    except OSError as e:
        info["error"] = str(e)
    stale = []
    for base in ("fir", "iir"):
        pyx = info.get(base + ".pyx")
        sos = [v for k, v in info.items() if k.startswith(base + ".") and k.endswith(".so")]
        if pyx and sos and all(pyx["mtime"] > s["mtime"] for s in sos):
            stale.append(base)
    return {"build": {"files": info, "pyx_newer_than_so": stale,
                      "note": "verdict concerns the compiled extension as present; Cython is not installed so .pyx edits cannot take effect"}}
