"""C15 - on a truncated image every reported file is a well-formed prefix.

Crash-point injection: the image (the ripping process's output) is cut at every
sector / cluster / raw-sector boundary +-1, at the edges of every structure the
independent writer knows, and at seeded interior offsets.  Oracle, relative to
the clean arm of the same scenario:
  (1) export terminates within the step budget;
  (2) every reported file exists, is a valid WAV, has a path the clean arm also
      produced, and its PCM is a prefix of the clean arm's PCM for that path;
  (3) every file whose dependency set (tables, directory sectors, its own and
      its partner's header and data sectors) lies wholly before the cut is
      reported and complete.
A second crash model, EIO at the k-th read, is checked against (1) and (2) only.
"""
from __future__ import annotations

import contextlib
import random
from typing import Dict, List, Optional, Tuple

from ..core import CleanArmFailed, RunResult, ScenarioInvalid, digest_of, jhash, tree_digest, weighted
from ..gen_akai import expected_exports as akai_expected, gen_buildable as gen_akai
from ..gen_roland import expected_exports as roland_expected, gen_model as gen_roland
from ..model import akai as A
from ..model import cdda as C
from ..model import containers as K
from ..model import roland as R
from ..model import wav as W
from ..seams import Sandbox, SimFile, StepClock, VirtualFS, knobs
from .. import tool
from .c03 import gen_cdda_model

PROP = "C15"
LEVEL = "fault_enumeration"
RUNS = {"quick": 150, "thorough": 12000}
TIME_CAP = {"quick": 400, "thorough": 900}
SELFCHECK_N = 4
CHUNK = 1          # runs per worker task (cost-aware: keeps the time cap responsive)
RULE = ("seeded AKAI (directories before or after the data), Roland and CDDA images, raw or inside 2352-byte sectors; each image is cut at "
        "every sector/cluster/raw-sector boundary and boundary+-1 (all of them for images up to 40 boundaries, a seeded subset beyond), at "
        "the first and last byte of every structure known to the writer, and at seeded interior offsets; plus EIO at the k-th read; one "
        "evaluation = one image with all its cut points; non-trivial = at least one cut lands inside sample data or a directory/table; "
        "distinct = hash of (image digest, cut list)")
STATE_MEASURE = "distinct (image digest, cut positions) hashes; coverage.crash_points counts the individual truncated exports"
COMPONENTS = {"real": ["smpl_extract (all parsing + export code)", "construct", "numpy"],
              "stub": ["SimFile with a truncation fault (reads clip at the cut, SEEK_END reports the cut)", "sandboxed output"]}
ASSUMPTIONS = ["dependency sets are computed by the independent writer: partition header+SAT, the volume's directory sectors, the file's own (and its stereo partner's) sectors",
               "for cue/bin the bin is what gets cut; the cue sheet is intact"]
EXPECTED_PROBES = ["cut_in_header", "cut_in_volume_table", "cut_in_sat_or_fat", "cut_in_directory", "cut_in_first_data_sector", "cut_in_middle_data_sector", "cut_in_last_data_sector",
                   "cut_in_pair_half", "cut_between_directory_and_data", "dirs_after_data", "prefix_exported", "complete_exported", "exception_path_taken",
                   "container_2352", "akai", "roland", "cdda", "eio_fired"]
SHRINK = {"max_attempts": 150, "max_seconds": 120.0, "simple_values": {"policy": ["contiguous"], "block": [4096], "container": ["raw"]}}


def gen(rng: random.Random, tier: str, index: int) -> dict:
    fmt = weighted(rng, [("akai", 6), ("roland", 2), ("cdda", 2)])
    container = "raw"
    if fmt == "akai":
        model = gen_akai(rng, max_parts=2, max_vols=3, max_files=4, min_files=1, big=False, programs=True)
        if rng.random() < 0.25:
            container = "s2352"
    elif fmt == "roland":
        model = gen_roland(rng, max_samples=4, max_perf=2, max_vols=1, max_clusters=2)
    else:
        model = gen_cdda_model(rng)
        model["bin_len"] = min(model["bin_len"], 400 * C.SECTOR) if C.first_sector(model["tracks"][0]) < 300 else model["bin_len"]
    sc = {"fmt": fmt, "model": model, "container": container, "block": rng.choice([4096, 4096, 4096, 510, 64, 8192]),
          "cut_seed": rng.getrandbits(30), "max_cuts": 36 if fmt != "roland" else 10, "eio": [rng.randint(1, 400) for _ in range(2)] if rng.random() < 0.3 else []}
    return sc


# --------------------------------------------------------------------------

def _build(sc: dict):
    fmt, m = sc["fmt"], sc["model"]
    if fmt == "akai":
        raw, lay = A.build(m)
        exp = akai_expected(m)
    elif fmt == "roland":
        raw, lay = R.build(m)
        exp = roland_expected(m)
    else:
        raw, lay = C.bin_bytes(m), None
        exp = None
    dev = K.to_2352(raw) if sc.get("container") == "s2352" else raw
    return raw, dev, lay, exp


def _to_dev(sc: dict, off: int) -> int:
    """Logical (raw image) offset -> device offset."""
    if sc.get("container") == "s2352":
        s, o = divmod(off, 2048)
        return s * 2352 + 16 + o
    return off


def _cut_points(sc: dict, raw: bytes, dev: bytes, lay) -> List[Tuple[int, str]]:
    """[(device offset, label)]"""
    fmt = sc["fmt"]
    rng = random.Random(sc.get("cut_seed", 0))
    pts: Dict[int, str] = {}

    def add(off: int, label: str) -> None:
        if 0 <= off <= len(dev):
            pts.setdefault(off, label)

    if "cuts" in sc:
        return [(c, "given") for c in sc["cuts"]]
    if fmt == "akai":
        for p in lay.partitions:
            add(_to_dev(sc, p.base + 1), "header")
            add(_to_dev(sc, p.base + A.HDR_BYTES), "header")
            add(_to_dev(sc, p.base + 2 + rng.randrange(200)), "header")                      # inside the magic / checksum bytes
            add(_to_dev(sc, p.base + A.HDR_BYTES + rng.randrange(1, A.VOL_ENT * A.N_VOL)), "volume_table")
            add(_to_dev(sc, p.base + A.HDR_BYTES + A.VOL_ENT * len(p.volumes) + rng.randrange(0, 16)), "volume_table")
            add(_to_dev(sc, p.base + A.SAT_OFF + rng.randrange(1, 64)), "sat")
            add(_to_dev(sc, p.base + A.SAT_OFF + rng.randrange(2 * A.SAT_N)), "sat")
            add(_to_dev(sc, p.base + A.HDR_TOTAL), "sat")
            for s in range(p.nsect + 1):
                for d in (-1, 0, 1):
                    add(_to_dev(sc, max(0, p.base + s * A.SECTOR + d)), "boundary")
            for v in p.volumes:
                for a in v.dir_abs:
                    add(_to_dev(sc, a + rng.randrange(1, 200)), "directory")
                for f in v.files:
                    add(_to_dev(sc, f.entry_off + rng.randrange(24)), "directory")
                    add(_to_dev(sc, f.sectors_abs[0] + rng.randrange(1, A.SAMPLE_HDR)), "file_header")
                    add(_to_dev(sc, f.sectors_abs[0] + A.SAMPLE_HDR + rng.randrange(0, 64)), "data")
                    for a in f.sectors_abs:
                        add(_to_dev(sc, a + rng.randrange(A.SECTOR)), "data")
    elif fmt == "roland":
        for off, label in ((1, "header"), (0x1FF, "header"), (R.FAT_OFF + 4, "fat"), (R.FAT_OFF + 2 * R.FAT_N - 1, "fat"), (R.VOL_DIR + 1, "directory"),
                           (R.SAMP_DIR + 33, "directory"), (R.SAMP_PAR + 17, "directory"), (R.PERF_PAR + 300, "directory"), (R.DATA_FAT_OFF, "boundary")):
            add(off, label)
        for c in range(R.FIRST_CLUSTER, R.FIRST_CLUSTER + lay.nclusters + 1):
            for d in (-1, 0, 1):
                add(R.DATA_FAT_OFF + c * R.CL + d, "boundary")
            add(R.DATA_FAT_OFF + c * R.CL + rng.randrange(R.CL), "data")
    else:
        n = len(dev)
        for t in sc["model"]["tracks"]:
            a = C.first_sector(t) * C.SECTOR
            for d in (-1, 0, 1, 3, 4):
                add(a + d, "boundary")
        for s in range(0, n // C.SECTOR + 2):
            add(s * C.SECTOR, "boundary")
        for _ in range(10):
            add(rng.randrange(n + 1), "data")
    add(0, "empty")
    add(len(dev) - 1, "boundary")
    if sc.get("container") == "s2352":
        for _ in range(6):
            s = rng.randrange(len(dev) // 2352 + 1)
            add(s * 2352 + rng.choice([0, 1, 15, 16, 17, 2063, 2064, 2351]), "raw_sector")
    items = sorted(pts.items())
    mx = sc.get("max_cuts", 48)
    if len(items) > mx:
        # keep every labelled structure cut, sample the boundaries
        keep = [it for it in items if it[1] not in ("boundary",)]
        rest = [it for it in items if it[1] == "boundary"]
        rng.shuffle(rest)
        rng.shuffle(keep)
        items = sorted((keep + rest)[:mx]) if len(keep) >= mx else sorted(keep + rest[:mx - len(keep)])
    return items


def _deps_ok(sc: dict, lay, cut_dev: int) -> Optional[Dict[str, bool]]:
    """For AKAI / Roland: path -> True if everything the export of that path needs lies before the cut."""
    fmt, m = sc["fmt"], sc["model"]
    out: Dict[str, bool] = {}

    def before(a: int, n: int) -> bool:
        if n <= 0:
            return True
        if sc.get("container") == "s2352":
            # a raw sector that is only partly present is not available at all: its data "lies before the cut"
            # only if the whole 2352-byte sector does
            return ((a + n - 1) // 2048 + 1) * 2352 <= cut_dev
        return a + n - 1 < cut_dev

    if fmt == "akai":
        hdr_ok = True
        for pi, p in enumerate(lay.partitions):
            hdr_ok = hdr_ok and before(p.base, A.HDR_TOTAL)
            part = m["partitions"][pi]
            for vl in p.volumes:
                vol = part["volumes"][vl.idx]
                # the directory is needed up to and including its end-of-table entry (live and deleted entries before it), not
                # to the end of its last sector
                need = 24 * (len(vl.files) + len(vol.get("ghosts", [])) + 1)
                dir_ok = True
                for j, a in enumerate(vl.dir_abs):
                    nj = min(A.SECTOR, need - j * A.SECTOR)
                    if nj > 0:
                        dir_ok = dir_ok and before(a, nj)
                fl_ok = {}
                for f in vl.files:
                    left, ok = f.size, True
                    for a in f.sectors_abs:
                        ok = ok and before(a, min(A.SECTOR, left))
                        left -= A.SECTOR
                    fl_ok[f.name] = ok
                for fi, f in enumerate(vol["files"]):
                    if f["kind"] != "sample":
                        continue
                    pr = f.get("pair")
                    if pr:
                        other = next((g for g in vol["files"] if g.get("pair") and g["pair"][0] == pr[0] and g["pair"][1] != pr[1]), None)
                        if other is not None:
                            path = "%s/%s/%s.wav" % (A.partition_letter(pi), vol["name"], pr[0].strip())
                            out[path] = hdr_ok and dir_ok and fl_ok[f["name"]] and fl_ok[other["name"]]
                            continue
                    out["%s/%s/%s.wav" % (A.partition_letter(pi), vol["name"], f["name"])] = hdr_ok and dir_ok and fl_ok[f["name"]]
        # every volume directory of a partition is parsed when the partition is opened: note which files additionally
        # depend on a *foreign* directory being readable (used only to label a violation of clause 3)
        return out
    if fmt == "roland":
        fixed_ok = cut_dev >= R.DATA_FAT_OFF
        exp = roland_expected(m)
        by_name = {sm["name"]: sl for sm, sl in zip(m["samples"], lay.samples)}
        for path in exp:
            sl = by_name[path.rsplit("/", 1)[1][:-4]]
            out[path] = fixed_ok and all(a + R.CL - 1 < cut_dev for a in sl.clusters_abs)
        return out
    return None


def _export(sc: dict, dev: bytes, sb: Sandbox, sub: str, *, cut=None, eio=None):
    fmt = sc["fmt"]
    cm = contextlib.nullcontext()
    if fmt == "cdda":
        sf = SimFile(dev, cut=cut, eio_at=eio)
        vfs = VirtualFS({"/vfs/d.cue": C.cue_text(sc["model"]).encode(), "/vfs/" + sc["model"]["bin_name"]: sf})
        cm, target = vfs.installed(), "/vfs/d.cue"
    else:
        sf = SimFile(dev, cut=cut, eio_at=eio)
        target = sf
    with cm:
        image, r0 = tool.open_image(target)
        if image is None:
            er = tool.ExportResult(exc=r0.exc, exc_msg=r0.exc_msg, exc_tb=r0.exc_tb, budget=r0.budget)
        else:
            er = tool.run_export(image, sb, sub)
    return er, sf


def run(sc: dict) -> RunResult:
    res = RunResult()
    fmt = sc["fmt"]
    res.probes[fmt] += 1
    raw, dev, lay, exp = _build(sc)
    if sc.get("container") == "s2352":
        res.probes["container_2352"] += 1
    if fmt == "akai" and any(p.get("dirs_last") for p in sc["model"]["partitions"]):
        res.probes["dirs_after_data"] += 1
    cuts = _cut_points(sc, raw, dev, lay)
    nontrivial = False
    digests = []
    with Sandbox("c15") as sb, knobs(sc.get("block", 4096)):
        with StepClock(2_000_000_000) as clk0:
            clean, sf0 = _export(sc, dev, sb, "clean")
        res.steps += clk0.steps
        s0 = clk0.steps
        if clean.exc or clean.budget:
            # the clean arm itself fails: C01/C02/C03 own that; nothing to compare against
            raise CleanArmFailed("clean arm failed: %s %s" % (clean.exc, clean.exc_msg))
        clean_pcm: Dict[str, W.WavInfo] = {}
        for p in clean.reported:
            try:
                clean_pcm[p] = W.walk(clean.tree[p])
            except (W.WavInvalid, KeyError):
                raise CleanArmFailed("clean arm wrote an invalid file")
        budget = 5_000_000 + 50 * s0
        crash_points = 0
        for n, (cut, label) in enumerate(cuts):
            crash_points += 1
            with StepClock(budget) as clk:
                er, sf = _export(sc, dev, sb, "cut%d" % n, cut=cut)
            res.steps += clk.steps
            res.io_events += sf.io_events
            res.faults["cut"] += 1 if sf.cut_hit else 0
            digests.append((cut, sf.event_digest(), er.stdout, tree_digest(er.tree), er.exc))
            _classify_cut(res, sc, lay, cut, label)
            if label in ("data", "directory", "sat", "fat", "file_header", "volume_table"):
                nontrivial = True
            if er.exc:
                res.probes["exception_path_taken"] += 1
            before = len(res.violations)
            _judge(res, sc, lay, cut, label, er, clean, clean_pcm, budget)
            # keep exploring the remaining crash points of this image, but report each class once per image
            seen_cls = set()
            keep = []
            for v in res.violations:
                k = (v.cls, tuple(sorted((a, str(b)) for a, b in v.features.items() if a != "label")))
                if k in seen_cls:
                    continue
                seen_cls.add(k)
                keep.append(v)
            res.violations = keep
            if any(v.cls == "no_result" for v in res.violations):
                break
        for k in sc.get("eio", []):
            with StepClock(budget) as clk:
                er, sf = _export(sc, dev, sb, "eio%d" % k, eio=k)
            res.steps += clk.steps
            res.io_events += sf.io_events
            if sf.eio_fired:
                res.probes["eio_fired"] += 1
                res.faults["eio"] += 1
            digests.append(("eio", k, sf.event_digest(), er.stdout, tree_digest(er.tree), er.exc))
            if _judge(res, sc, lay, None, "eio@%d" % k, er, clean, clean_pcm, budget):
                break
    res.probes["crash_points"] += len(cuts)
    res.digest = digest_of(digests, [v.cls for v in res.violations])
    res.state_hash = jhash([digest_of(dev), [c for c, _ in cuts], sc.get("eio")])
    res.nontrivial = nontrivial
    res.sample = {"fmt": fmt, "container": sc.get("container"), "device_bytes": len(dev), "cuts": [list(c) for c in cuts[:10]], "n_cuts": len(cuts),
                  "clean_files": clean.reported[:6], "block": sc.get("block")}
    return res


def _classify_cut(res: RunResult, sc: dict, lay, cut: int, label: str) -> None:
    m = {"header": "cut_in_header", "volume_table": "cut_in_volume_table", "sat": "cut_in_sat_or_fat", "fat": "cut_in_sat_or_fat", "directory": "cut_in_directory"}
    if label in m:
        res.probes[m[label]] += 1
    if sc["fmt"] == "akai":
        model = sc["model"]
        for p in lay.partitions:
            for v in p.volumes:
                last_dir = max(v.dir_abs)
                for f in v.files:
                    for j, a in enumerate(f.sectors_abs):
                        lo, hi = _to_dev(sc, a), _to_dev(sc, a + A.SECTOR - 1)
                        if lo <= cut <= hi:
                            pos = "first" if j == 0 else ("last" if j == len(f.sectors_abs) - 1 else "middle")
                            res.probes["cut_in_%s_data_sector" % pos] += 1
                            fm = model["partitions"][p.idx]["volumes"][v.idx]["files"][f.idx]
                            if fm.get("pair"):
                                res.probes["cut_in_pair_half"] += 1
                    if _to_dev(sc, last_dir + A.SECTOR) <= cut <= _to_dev(sc, min(f.sectors_abs)) or \
                            _to_dev(sc, max(f.sectors_abs) + A.SECTOR) <= cut <= _to_dev(sc, min(v.dir_abs)):
                        res.probes["cut_between_directory_and_data"] += 1


def _judge(res: RunResult, sc: dict, lay, cut, label: str, er: tool.ExportResult, clean, clean_pcm, budget: int) -> bool:
    n0 = len(res.violations)
    where = "cut at %s (%s)" % (cut, label)
    # (1)
    if er.budget:
        res.add(PROP, "no_result", "%s: export did not finish within %d steps" % (where, budget), label=label)
        return True
    # (2)
    for p in er.reported:
        if p not in er.tree:
            res.add(PROP, "reported_but_missing", "%s: %s reported but not on disk" % (where, p), label=label)
            continue
        try:
            info = W.walk(er.tree[p])
        except W.WavInvalid as x:
            res.add(PROP, "invalid_wav", "%s: %s: %s" % (where, p, x), label=label, reason=x.reason)
            continue
        ref = clean_pcm.get(p)
        if ref is None:
            mono_half = False
            if sc["fmt"] == "akai":
                # a surviving half of a stereo pair exported under its own mono name
                stem_paths = [q for q in clean_pcm if clean_pcm[q].channels == 2]
                half_names = {f["name"] for pp in sc["model"]["partitions"] for vv in pp["volumes"] for f in vv["files"] if f.get("pair")}
                mono_half = info.channels == 1 and p.rsplit("/", 1)[-1][:-4] in half_names and \
                    any(clean_pcm[q].channel(0).startswith(info.pcm) or clean_pcm[q].channel(1).startswith(info.pcm) for q in stem_paths)
            res.add(PROP, "new_path", "%s: %s is reported but the complete image never yields that path (clean paths: %s)" % (where, p, sorted(clean_pcm)[:6]),
                    label=label, mono_half_of_pair=mono_half)
            continue
        if info.channels != ref.channels or info.rate != ref.rate:
            res.add(PROP, "format_differs", "%s: %s has %d ch @%d, clean arm %d ch @%d" % (where, p, info.channels, info.rate, ref.channels, ref.rate), label=label)
            continue
        if not ref.pcm.startswith(info.pcm):
            res.add(PROP, "not_prefix", "%s: %s (%d bytes) is not a prefix of the clean arm's PCM (%d bytes); first difference at byte %d" % (
                where, p, len(info.pcm), len(ref.pcm), _first_diff(info.pcm, ref.pcm)), label=label)
        elif len(info.pcm) < len(ref.pcm):
            res.probes["prefix_exported"] += 1
        else:
            res.probes["complete_exported"] += 1
    # (3)
    if cut is not None and sc["fmt"] in ("akai", "roland"):
        deps = _deps_ok(sc, lay, cut)
        for p, ok in sorted(deps.items()):
            if not ok or p not in clean_pcm:
                continue
            if p not in er.reported or p not in er.tree:
                res.add(PROP, "intact_file_missing", "%s: %s lies wholly before the cut but was not exported (exc %s: %s %s)" % (where, p, er.exc, er.exc_msg, er.exc_tb),
                        label=label, exc=er.exc or "")
                break
            try:
                info = W.walk(er.tree[p])
            except W.WavInvalid:
                continue
            if info.pcm != clean_pcm[p].pcm:
                res.add(PROP, "intact_file_incomplete", "%s: %s lies wholly before the cut but has %d of %d bytes" % (where, p, len(info.pcm), len(clean_pcm[p].pcm)), label=label)
                break
    elif cut is not None and sc["fmt"] == "cdda":
        m = sc["model"]
        tracks = C.expected_tracks(m)
        for i, (title, pcm) in enumerate(tracks):
            a = C.first_sector([t for t in m["tracks"] if t.get("mode", "AUDIO").lower() == "audio"][i]) * C.SECTOR
            if i + 1 < len(tracks) and a + len(pcm) <= cut:
                p = title + ".wav"
                if p not in er.reported or p not in er.tree or W.walk(er.tree[p]).pcm != pcm:
                    res.add(PROP, "intact_file_missing", "%s: track %s lies wholly before the cut but is missing or incomplete (exc %s)" % (where, p, er.exc), label=label, exc=er.exc or "")
                    break
    return len(res.violations) > n0


def _first_diff(a: bytes, b: bytes) -> int:
    for i, (x, y) in enumerate(zip(a, b)):
        if x != y:
            return i
    return min(len(a), len(b))
