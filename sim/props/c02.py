"""C02 - Roland S-7xx export is byte-exact for every cluster chain and loop mode (fault-free arm)."""
from __future__ import annotations

import random

from ..core import RunResult, digest_of, jhash, tree_digest
from ..gen_roland import expected_exports, gen_model
from ..model import roland as R
from ..seams import Sandbox, SimFile, StepClock, knobs
from .. import tool
from .c01 import check_export

PROP = "C02"
LEVEL = "exploration"
RUNS = {"quick": 400, "thorough": 20000}
TIME_CAP = {"quick": 300, "thorough": 900}
CHUNK = 4          # runs per worker task (cost-aware: keeps the time cap responsive)
RULE = ("seeded S-7xx logical models (0-3 volumes, 1-4 performances incl. orphans, 1-3 patches, partials of <=4 samples, samples "
        "shared between performances) serialised by an independent writer under a seeded cluster allocator (5 chain-order "
        "policies, cluster_top 0-2, end markers 0xfff8-0xffff, FAT version 1/2), all 7 loop modes and 6 frequency codes, lengths "
        "around k*9216 bytes, seeded transcoder block size; non-trivial = some exported sample has a permuted chain, "
        "cluster_top>0, a reverse mode or data that fills its last cluster; distinct = hash of (hierarchy, chains, modes, knob)")
STATE_MEASURE = "distinct (hierarchy, every sample's cluster chain, loop mode, cluster_top, block-size knob) hashes"
COMPONENTS = {"real": ["smpl_extract (actions, roland/s7xx/*, util/*, structural, transcoder, generalized/wav)", "construct", "numpy"],
              "stub": ["input file object: SimFile (cross-checked against the real CLI for 1 in 40 runs)", "stdout captured",
                       "output: real files in a /dev/shm sandbox behind an audit hook"]}
ASSUMPTIONS = ["exact arm: names are safe words, unique per directory, no L/R pairs, and no sample is reached through two patches of one performance (the statement does not fix whether it then appears once or twice)",
               "loop points satisfy start <= selected end < number of words"]
EXPECTED_PROBES = ["exported_twice", "chain_permuted", "cluster_top", "reverse_mode", "exact_fill", "orphan_volume", "no_volume", "fat_v2",
                   "shared_sample", "shared_chain", "release_end_mode", "knob_not_default", "cli_crosscheck"]
SHRINK = {"max_attempts": 120, "max_seconds": 90.0, "simple_values": {"policy": ["contiguous"], "block": [4096], "cluster_top": [0]}}
KNOBS = [2, 64, 510, 4096, 4096, 4096, 8192, 65536]
CLI_EVERY = 40


def gen(rng: random.Random, tier: str, index: int) -> dict:
    model = gen_model(rng)
    b = rng.choice(KNOBS)
    if b < 64 and sum(s["n"] for s in model["samples"]) > 4000:
        b = 510
    return {"model": model, "block": b, "cli": index % CLI_EVERY == 3, "twice": index % 3 == 1}


def run(sc: dict) -> RunResult:
    res = RunResult()
    model = sc["model"]
    img, lay = R.build(model)
    exp = expected_exports(model)
    block = sc.get("block", 4096)
    nontrivial = False
    exported_idx = set()
    for p in range(len(model["performances"])):
        exported_idx.update(R.referenced_samples(model, p))
    cnt = {}
    for p in range(len(model["performances"])):
        for sidx in set(R.referenced_samples(model, p)):
            cnt[sidx] = cnt.get(sidx, 0) + 1
    if any(v > 1 for v in cnt.values()):
        res.probes["shared_sample"] += 1
    for sl in lay.samples:
        sm = model["samples"][sl.idx]
        if sl.idx not in exported_idx:
            continue
        if "alias_of" in sm:
            res.probes["shared_chain"] += 1
            nontrivial = True
        if len(sl.data_chain) > 1 and sl.data_chain != sorted(sl.data_chain):
            res.probes["chain_permuted"] += 1
            nontrivial = True
        if sm.get("cluster_top"):
            res.probes["cluster_top"] += 1
            nontrivial = True
        if sm["loop_mode"] in (5, 6):
            res.probes["reverse_mode"] += 1
            nontrivial = True
        if sm["loop_mode"] in (1, 3):
            res.probes["release_end_mode"] += 1
        if (2 * sm["n"]) % R.CL == 0 and R.end_point(sm) == sm["n"] - 1:
            res.probes["exact_fill"] += 1
            nontrivial = True
    if not model["volumes"]:
        res.probes["no_volume"] += 1
    elif R.orphan_performances(model):
        res.probes["orphan_volume"] += 1
    if model.get("fat_version") == 2:
        res.probes["fat_v2"] += 1
    if block != 4096:
        res.probes["knob_not_default"] += 1
    sf = SimFile(img)
    budget = 60_000_000
    with Sandbox("c02") as sb, knobs(block), StepClock(budget) as clk:
        image, r0 = tool.open_image(sf)
        if image is None:
            res.add(PROP, "open_failed", "determine_image_type raised %s: %s [%s]" % (r0.exc, r0.exc_msg, r0.exc_tb), exc=r0.exc)
            er = tool.ExportResult()
        else:
            er = tool.run_export(image, sb)
            if er.budget:
                res.add(PROP, "no_result", "export exceeded the step budget of %d" % budget)
            check_export(res, PROP, exp, er)
            if sc.get("twice") and not res.violations:
                # the same opened image exported once more yields the same files
                res.probes["exported_twice"] += 1
                er_b = tool.run_export(image, sb, "again")
                if er_b.budget:
                    res.add(PROP, "no_result", "second export exceeded the step budget of %d" % budget)
                check_export(res, PROP, exp, er_b, ctx="[second export of the same image] ")
            if er.escapes:
                res.add(PROP, "write_outside_destination", repr(er.escapes[:3]))
    if sf.writes:
        res.add(PROP, "image_written", "the image file object was written to")
    res.steps = clk.steps
    res.io_events = sf.io_events
    out_digest = tree_digest(er.tree)
    if sc.get("cli") and not res.violations:
        res.probes["cli_crosscheck"] += 1
        rc, out, tree = tool.cli_export({"disk.img": img}, "disk.img")
        er2 = tool.ExportResult(stdout=out, reported=[l[9:] for l in out.split("\n") if l.startswith("Exported ")], tree=tree)
        check_export(res, PROP, exp, er2, ctx="[real CLI] ")
        if block == 4096 and tree_digest(tree) != out_digest:
            res.add(PROP, "cli_differs_from_simulation", "rc=%d; CLI exported %d files, simulation %d" % (rc, len(tree), len(er.tree)))
    res.digest = digest_of(sf.event_digest(), er.stdout, out_digest, [v.cls for v in res.violations])
    res.state_hash = jhash([[(s.idx, s.chain) for s in lay.samples], [(s["loop_mode"], s.get("cluster_top", 0)) for s in model["samples"]],
                            [p["patches"] for p in model["performances"]], [v["performances"] for v in model["volumes"]], block])
    res.nontrivial = nontrivial
    res.sample = {"samples": [(s["name"], s["n"], s["loop_mode"], s.get("cluster_top", 0), s["points"][0][0], R.end_point(s)) for s in model["samples"]][:6],
                  "chains": [(s.name, s.chain) for s in lay.samples][:6],
                  "performances": [(p["name"], p["patches"]) for p in model["performances"]],
                  "volumes": [(v["name"], v["performances"]) for v in model["volumes"]], "block": block, "image_bytes": len(img)}
    return res
