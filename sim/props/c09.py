"""C09 - listing and export do not depend on the container the image is wrapped in.

Purely differential: the same logical disk is served by five simulated storage
encodings; every arm must be recognised as the same kind of image and give the
same ``ls`` text at every level and byte-identical exported trees as the raw arm.
"""
from __future__ import annotations

import random

from ..core import RunResult, digest_of, jhash, tree_digest, weighted
from ..gen_akai import gen_buildable as gen_akai
from ..gen_roland import gen_model as gen_roland
from ..model import akai as A
from ..model import roland as R
from ..model import containers as K
from ..model import cdda as C
from ..seams import Sandbox, SimFile, StepClock, VirtualFS
from .. import tool

PROP = "C09"
LEVEL = "exploration"
RUNS = {"quick": 160, "thorough": 8000}
TIME_CAP = {"quick": 400, "thorough": 900}
ARMS = ["raw", "raw_path", "s2352", "mdx", "cue_raw", "cue_2352"]
SELFCHECK_N = 4
CHUNK = 1          # runs per worker task (cost-aware: keeps the time cap responsive)
RULE = ("every seeded AKAI / Roland image (as in C01/C02, smaller) x {raw, 2352-byte raw sectors, MDX wrapper, cue->raw, cue->2352}; "
        "ls at the root and at every directory / sampled leaf path plus export in each arm, compared with the raw arm; plus an all-audio "
        "cue over the same bytes must open as CDDA; non-trivial = raw size not a multiple of 2048 or a file whose data crosses a 2048-byte "
        "body boundary; distinct = hash of (image digest)")
STATE_MEASURE = "distinct raw image digests"
COMPONENTS = {"real": ["smpl_extract.actions.determine_image_type, alcohol/mdf, alcohol/mdx, cuesheet, akai/*, roland/s7xx/*, util/*"],
              "stub": ["SimFile for raw/2352/MDX; virtual FS for the two cue arms", "stdout captured", "sandboxed output"]}
ASSUMPTIONS = ["the 2352 encoding pads the last sector's user data; MDX 'eof' = header + data length",
               "purely differential - the raw arm itself is validated by C01/C02"]
EXPECTED_PROBES = ["akai", "roland", "size_not_multiple_of_2048", "mdf_partial_sector_reads", "audio_cue_is_cdda", "ls_leaf_compared", "trimmed_dump", "partial_raw_sector_at_end", "cue_header_lines", "mixed_mode_cue", "bin_in_subdirectory", "keywords_not_upper_case", "blank_lines_between_entries"]
SHRINK = {"max_attempts": 60, "max_seconds": 120.0, "simple_values": {"policy": ["contiguous"]}}


def gen(rng: random.Random, tier: str, index: int) -> dict:
    sc = _gen(rng)
    sc["raw_tail"] = rng.choice([0, 0, 1, 15, 16, 17, 100, 2351]) if rng.random() < 0.5 else 0
    style = {}
    if rng.random() < 0.4:
        style["header"] = rng.sample(['REM GENRE Sampler', 'REM DATE 1994', 'CATALOG 0000000000000', 'PERFORMER "Roland"', 'TITLE "Sample CD"', '', '   '], rng.randint(1, 3))
    if rng.random() < 0.35:
        style["audio_tracks"] = rng.randint(1, 2)
    if rng.random() < 0.3:
        # the FILE entry is a path relative to the cue sheet
        style["bin_name"] = rng.choice(["D.BIN", "bins/d.img", "rips/cd 1/d.bin", "my disc (1).bin"])
    if rng.random() < 0.25:
        style["kw_case"] = rng.choice(["lower", "title"])
    if rng.random() < 0.3:
        # editors leave lines that hold only blanks or a tab between the entries
        style["inner_blank"] = [rng.choice(["   ", "\t", " \t ", ""]), rng.choice(["after_file", "after_track", "both", "everywhere"])]
    sc["cue_style"] = style
    return sc


def _gen(rng: random.Random) -> dict:
    if rng.random() < 0.75:
        m = gen_akai(rng, max_parts=2, max_vols=2, max_files=4, big=False)
        if rng.random() < 0.5:
            m["trailing"] = rng.choice([1, 17, 1000, 2047, 2049])
        # a dump that stops right after the last used byte: the final partial 2048-byte block then holds live data
        return {"fmt": "akai", "model": m, "trim": rng.choice([None, None, 0, 1, 7, 300])}
    return {"fmt": "roland", "model": gen_roland(rng, max_samples=4, max_perf=2, max_vols=2, max_clusters=2), "trim": rng.choice([None, 0, 1, 5])}


def _paths(sc: dict):
    m = sc["model"]
    out = [""]
    if sc["fmt"] == "akai":
        for pi, p in enumerate(m["partitions"]):
            L = A.partition_letter(pi)
            out += [L, L + ":/"]
            for v in p["volumes"]:
                out.append("%s/%s" % (L, v["name"]))
                for f in v["files"][:3]:
                    out.append("%s/%s/%s" % (L, v["name"], f["name"]))
    else:
        vols = [(v["name"], v["performances"]) for v in m["volumes"]]
        orph = R.orphan_performances(m)
        if orph:
            vols.append(("All Performances" if not m["volumes"] else "_Orphan_perf", orph))
        for vn, ps in vols:
            out.append(vn)
            for p in sorted(set(ps))[:2]:
                pf = m["performances"][p]
                out.append("%s/%s" % (vn, pf["name"]))
                for sidx in R.referenced_samples(m, p)[:2]:
                    out.append("%s/%s/%s" % (vn, pf["name"], m["samples"][sidx]["name"]))
                for pa in pf["patches"][:1]:
                    out.append("%s/%s/%s" % (vn, pf["name"], m["patches"][pa]["name"]))
    out.append("no such/entry")
    return out


def _run_arm(arm: str, img: bytes, paths, res: RunResult, raw_tail: int = 0, cue_style=None):
    """Returns dict(kind, ls{path:(stdout,exc)}, export(stdout, tree digest, exc), simfile)."""
    vfs = None
    style = cue_style or {}

    def cue(mode: str) -> bytes:
        # a cue sheet may carry header lines before FILE and audio tracks after its data track (a mixed-mode disc)
        text = "".join(l + "\n" for l in style.get("header", []))
        text += K.data_cue(bin_name, mode, style.get("kw_case"))
        for i in range(style.get("audio_tracks", 0)):
            text += "  TRACK %02d AUDIO\n    INDEX 01 %02d:00:00\n" % (i + 2, 50 + i)
        if style.get("inner_blank"):
            blank, where = style["inner_blank"]
            out = []
            for ln in text.split("\n")[:-1]:
                out.append(ln)
                kw = ln.strip().upper()
                if where == "everywhere" or (kw.startswith("FILE") and where in ("after_file", "both")) \
                        or (kw.startswith("TRACK") and where in ("after_track", "both")):
                    out.append(blank)
            text = "\n".join(out) + "\n"
        return text.encode()

    bin_name = style.get("bin_name", "d.bin")

    if arm == "raw":
        target = sf = SimFile(img)
    elif arm == "raw_path":
        # the command line always hands over a path: the file is first sniffed as a text / cue file
        vfs = VirtualFS({"/vfs/d.img": img})
        target, sf = "/vfs/d.img", None
    elif arm == "s2352":
        # a rip may stop in the middle of a raw sector: the incomplete sector carries no usable data
        sfw = SimFile(K.to_2352(img) + bytes([0x5A]) * raw_tail)
        sfw.watch = []
        vfs = VirtualFS({"/vfs/d.mdf": sfw})
        target, sf = "/vfs/d.mdf", None
    elif arm == "mdx":
        vfs = VirtualFS({"/vfs/d.mdx": K.to_mdx(img)})
        target, sf = "/vfs/d.mdx", None
    elif arm == "cue_raw":
        vfs = VirtualFS({"/vfs/d.cue": cue("MODE1/2048"), "/vfs/" + bin_name: img})
        target, sf = "/vfs/d.cue", None
    else:
        vfs = VirtualFS({"/vfs/d.cue": cue("MODE1/2352"), "/vfs/" + bin_name: K.to_2352(img) + bytes([0x5A]) * raw_tail})
        target, sf = "/vfs/d.cue", None
    out = {"ls": {}, "kind": None}
    import contextlib
    cm = vfs.installed() if vfs else contextlib.nullcontext()
    with cm, Sandbox("c09" + arm) as sb, StepClock(400_000_000) as clk:
        image, r0 = tool.open_image(target)
        out["open_exc"] = r0.exc
        if image is not None:
            out["kind"] = type(image).__name__
            for p in paths:
                r = tool.run_ls(image, p)
                out["ls"][p] = (r.stdout, r.exc)
            er = tool.run_export(image, sb)
            out["export"] = (er.stdout, tree_digest(er.tree), er.exc, len(er.tree))
        else:
            out["export"] = ("", "", r0.exc, 0)
    res.steps += clk.steps
    sfs = [sf] if sf is not None else list(vfs.simfiles.values())
    res.io_events += sum(s.io_events for s in sfs)
    out["events"] = [s.event_digest() for s in sfs]
    if arm == "s2352":
        for sfx in sfs:
            if sfx.watch:
                res.probes["mdf_partial_sector_reads"] += sum(1 for pos, ln in sfx.watch if ln and ln < 2048 and (pos % 2352) + ln == 16 + 2048)
    if any(s.writes for s in sfs):
        res.add(PROP, "image_written", "arm %s wrote to the image" % arm)
    return out


def run(sc: dict) -> RunResult:
    res = RunResult()
    if sc["fmt"] == "akai":
        img, lay = A.build(sc["model"])
    else:
        img, lay = R.build(sc["model"])
    res.probes[sc["fmt"]] += 1
    nontrivial = False
    if sc.get("trim") is not None:
        if sc["fmt"] == "akai":
            ends = [a + min(A.SECTOR, f.size - j * A.SECTOR) for _, _, f in lay.files() for j, a in enumerate(f.sectors_abs)]
            ends += [a + A.SECTOR for p in lay.partitions for v in p.volumes for a in v.dir_abs] + [lay.partitions[-1].base + A.HDR_TOTAL] if lay.partitions else []
        else:
            ends = [R.DATA_FAT_OFF]
            for sm, sl in zip(sc["model"]["samples"], lay.samples):
                nb = 2 * sm["n"]
                ends += [a + min(R.CL, nb - j * R.CL) for j, a in enumerate(sl.clusters_abs[sm.get("cluster_top", 0):])]
        if ends:
            img = img[:max(ends) + sc["trim"]]
            res.probes["trimmed_dump"] += 1
    if len(img) % 2048:
        res.probes["size_not_multiple_of_2048"] += 1
        nontrivial = True
    paths = _paths(sc)
    if any(p.count("/") >= 2 for p in paths):
        res.probes["ls_leaf_compared"] += 1
        nontrivial = True
    arms = {}
    for arm in sc.get("arms", ARMS):
        arms[arm] = _run_arm(arm, img, paths, res, raw_tail=sc.get("raw_tail", 0), cue_style=sc.get("cue_style"))
    if sc.get("raw_tail"):
        res.probes["partial_raw_sector_at_end"] += 1
    if (sc.get("cue_style") or {}).get("header"):
        res.probes["cue_header_lines"] += 1
    if "/" in (sc.get("cue_style") or {}).get("bin_name", ""):
        res.probes["bin_in_subdirectory"] += 1
    if (sc.get("cue_style") or {}).get("inner_blank"):
        res.probes["blank_lines_between_entries"] += 1
    if (sc.get("cue_style") or {}).get("kw_case"):
        res.probes["keywords_not_upper_case"] += 1
    if (sc.get("cue_style") or {}).get("audio_tracks"):
        res.probes["mixed_mode_cue"] += 1
    base = arms.get("raw")
    if base is not None:
        for arm, o in arms.items():
            if arm == "raw":
                continue
            if o["kind"] != base["kind"] or o["open_exc"] != base["open_exc"]:
                res.add(PROP, "image_kind_differs", "%s: opened as %s (exc %s), raw as %s (exc %s)" % (arm, o["kind"], o["open_exc"], base["kind"], base["open_exc"]), arm=arm)
                continue
            for p in paths:
                if o["ls"].get(p) != base["ls"].get(p):
                    a, b = o["ls"].get(p), base["ls"].get(p)
                    res.add(PROP, "ls_differs", "%s: ls %r differs from the raw arm (exc %s vs %s; %d vs %d chars)" % (
                        arm, p, a and a[1], b and b[1], len(a[0]) if a else -1, len(b[0]) if b else -1), arm=arm)
                    break
            if o["export"][:3] != base["export"][:3]:
                res.add(PROP, "export_differs", "%s: export differs from the raw arm (files %d vs %d, exc %s vs %s, stdout equal: %s)" % (
                    arm, o["export"][3], base["export"][3], o["export"][2], base["export"][2], o["export"][0] == base["export"][0]), arm=arm)
    # an all-audio cue over the very same bytes is CDDA, not a sampler image
    if sc.get("audio_cue", True):
        st = sc.get("cue_style") or {}
        bn = st.get("bin_name", "d.bin")
        cue = K.data_cue(bn, "AUDIO", st.get("kw_case")) + '  TRACK 02 AUDIO\n    INDEX 01 00:00:02\n'
        vfs = VirtualFS({"/vfs/a.cue": cue.encode(), "/vfs/" + bn: img[:4 * 2352 + 8]})
        with vfs.installed(), StepClock(5_000_000) as clk:
            image, r0 = tool.open_image("/vfs/a.cue")
        res.steps += clk.steps
        res.probes["audio_cue_is_cdda"] += 1
        if image is None or type(image).__name__ != "CompactDiskAudioImage":
            res.add(PROP, "audio_cue_not_cdda", "all-audio cue opened as %s (exc %s)" % (type(image).__name__ if image else None, r0.exc))
    res.digest = digest_of([(a, o["events"], o["export"][:3], sorted(o["ls"].items())) for a, o in sorted(arms.items())], [v.cls for v in res.violations])
    res.state_hash = digest_of(img)
    res.nontrivial = nontrivial
    res.sample = {"fmt": sc["fmt"], "image_bytes": len(img), "paths": paths[:8], "kind": base and base["kind"],
                  "exported_files": base and base["export"][3]}
    return res
