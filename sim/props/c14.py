"""C14 - a damaged directory entry affects only that entry.

Stored-data fault injection confined to ONE record (an AKAI 24-byte file-table
entry; a Roland sample's 32-byte directory record or 48-byte parameter record),
differential against the clean arm of the same image: every OTHER item of the
same directory must still be listed under its original name and type, and its
audio must still be exported unchanged.
"""
from __future__ import annotations

import random
from typing import Dict, List, Optional, Tuple

from ..core import CleanArmFailed, RunResult, ScenarioInvalid, digest_of, jhash, tree_digest, weighted
from ..gen_akai import gen_sample as akai_sample, gen_program as akai_program
from ..gen_roland import gen_sample as roland_sample
from ..model import akai as A
from ..model import roland as R
from ..model import wav as W
from ..seams import Sandbox, SimFile, StepClock, knobs
from .. import tool

PROP = "C14"
LEVEL = "fault_enumeration"
RUNS = {"quick": 190, "thorough": 9000}
SELFCHECK_N = 4
TIME_CAP = {"quick": 400, "thorough": 900}
CHUNK = 1          # runs per worker task (cost-aware: keeps the time cap responsive)
RULE = ("AKAI volumes of 2-6 files and Roland performances of 2-5 samples (names pairwise at Hamming distance >= 2, no L/R pairs); one "
        "record is damaged per evaluation: enumerated block = every value 0..255 at the type byte, the two start-sector bytes and the "
        "size bytes of each entry of a fixed 3-file AKAI volume (thorough: every byte position of every entry, and every value at the key "
        "fields of a Roland sample's directory and parameter records); seeded block = single-byte values from each field's boundary "
        "classes plus multi-byte damage confined to the record; one run = one image with all its faults; non-trivial = the damaged field is "
        "the type, size, start sector, fat entry, cluster_top or a loop point; distinct = hash of (image digest, fault list)")
STATE_MEASURE = "distinct (image digest, damaged record, fault list) hashes; coverage.record_faults counts individual damaged-image runs"
COMPONENTS = {"real": ["smpl_extract (akai/file_entry, volume, file, sample, program; roland/s7xx/* ; structural; transcoder)", "construct"],
              "stub": ["SimFile with a byte-rot overlay", "sandboxed output"]}
ASSUMPTIONS = ["sibling names differ in >= 2 of their padded character positions and contain no L/R suffix, so a one-record change cannot legitimately rename "
               "or pair a sibling; multi-byte damage that would make the damaged name equal to a sibling's is skipped",
               "the output *file name* of a sibling is not constrained, only its listed name/type and its audio"]
EXPECTED_PROBES = ["akai", "roland", "fault_in_name", "fault_in_type", "fault_in_size", "fault_in_start", "fault_in_fat_entry", "fault_in_cluster_top",
                   "fault_in_loop_point", "fault_in_options", "multi_byte_fault", "name_copied_from_earlier_sibling", "damaged_item_disappeared", "damaged_item_changed", "rot_read"]
SHRINK = {"max_attempts": 150, "max_seconds": 120.0, "simple_values": {"policy": ["contiguous"], "block": [4096]}}

AK_FIELDS = [("name", 0, 12), ("pad", 12, 4), ("type", 16, 1), ("size", 17, 3), ("start", 20, 2), ("pad2", 22, 2)]
RO_DIR_FIELDS = [("name", 0, 16), ("ftype", 16, 1), ("attrs", 17, 1), ("links", 18, 6), ("reserved", 24, 4), ("fat_entry", 28, 2), ("nclus", 30, 2)]
RO_PAR_FIELDS = [("pname", 0, 16), ("loop_point", 16, 20), ("loop_mode", 36, 1), ("tune", 37, 3), ("cluster_top", 40, 2), ("pnclus", 42, 2),
                 ("options", 44, 1), ("key", 45, 1), ("ppad", 46, 2)]
AKAI_WORDS = ["KICK", "SNARE", "HIHAT", "TOMS", "BASS", "PADX", "STRG", "VOXA", "BELL", "ORGN", "FLUT", "GTRS", "PNO", "SAWX", "SQRW", "NOIZ"]


def _far_names(rng: random.Random, k: int, width: int, alphabet: str, words: List[str]) -> List[str]:
    out: List[str] = []
    tries = 0
    while len(out) < k and tries < 500:
        tries += 1
        s = (rng.choice(words) + " " + "".join(rng.choice(alphabet) for _ in range(rng.randint(1, 4))))[:width].strip()
        toks = s.split(" ")
        if toks[-1] in ("L", "R", "l", "r") or not s:
            continue
        pad = s.ljust(width)
        if all(sum(1 for a, b in zip(pad, o.ljust(width)) if a != b) >= 2 for o in out) and all(o.upper() != s.upper() for o in out):
            out.append(s)
    if len(out) < k:
        raise ScenarioInvalid("names")
    return out


def _enum_plan(tier: str):
    """[(fmt, entry index, byte offsets, part)] - each item is one run evaluating all 256 values at each listed offset."""
    plan = []
    if tier == "quick":
        for part in range(4):
            for e in range(3):
                plan.append(("akai", e, [16], part))
            plan.append(("akai", 1, [20], part))
            plan.append(("akai", 1, [21], part))
            plan.append(("akai", 0, [17], part))
    else:
        for e in range(3):
            for off in range(24):
                plan.append(("akai", e, [off]))
        for rec, offs in (("dir", [16, 17, 28, 29, 30, 31]), ("par", [16, 17, 18, 19, 24, 25, 26, 27, 32, 33, 34, 35, 36, 40, 41, 42, 43, 44, 45])):
            for off in offs:
                for part in range(8):
                    plan.append(("roland", rec, [off], part))
    return plan


def _fixed_akai() -> dict:
    files = []
    for i, (nm, n, ft) in enumerate([("KICK 01", 5000, 0xF3), ("SNARE 22", 300, 0x73), ("HAT 303", 4026, 0xF3)]):
        files.append({"kind": "sample", "name": nm, "ftype": ft, "key": "fixed%d" % i, "n": n, "typ": 3, "rate": 44100, "policy": "random", "seed": 7 + i})
    return {"partitions": [{"spare": 3, "volumes": [{"name": "VOL", "vtype": 3, "dir": {"mode": "chain", "policy": "contiguous", "seed": 1}, "files": files}]}], "trailing": 0}


def _fixed_roland() -> dict:
    samples = []
    for i, (nm, n, mode) in enumerate([("Piano A", 3000, 0), ("Strings B", 4608, 2), ("Choir C", 700, 5)]):
        samples.append({"name": nm, "key": "rfix%d" % i, "n": n, "points": [[0, 0], [10, 0], [n - 1, 0], [0, 0], [n - 1, 0]], "loop_mode": mode,
                        "cluster_top": 0, "freq": 1, "orig_key": 60, "policy": "random", "seed": 3 + i})
    return {"fat_version": 1, "spare": 2, "samples": samples, "partials": [{"name": "Part", "samples": [0, 1, 2]}],
            "patches": [{"name": "Patch", "partials": [0]}], "performances": [{"name": "Perf", "patches": [0]}], "volumes": [{"name": "Vol", "performances": [0]}]}


def gen(rng: random.Random, tier: str, index: int) -> dict:
    plan = _enum_plan(tier)
    if index < len(plan):
        it = plan[index]
        if it[0] == "akai":
            vals = range(256) if len(it) < 4 else range(it[3] * 64, it[3] * 64 + 64)
            return {"fmt": "akai", "model": _fixed_akai(), "vol": [0, 0], "entry": it[1], "block": 4096,
                    "faults": [[[o, v]] for o in it[2] for v in vals], "enumerated": True}
        part = it[3]
        return {"fmt": "roland", "model": _fixed_roland(), "perf": 0, "entry": 1, "record": it[1], "block": 4096,
                "faults": [[[o, v]] for o in it[2] for v in range(part * 32, part * 32 + 32)], "enumerated": True}
    fmt = weighted(rng, [("akai", 7), ("roland", 2)])
    if fmt == "akai":
        k = rng.randint(2, 6)
        names = _far_names(rng, k, 12, "ABCDEFGHIJKMNOPQSTUVWXYZ0123456789", AKAI_WORDS)
        files = []
        for i, nm in enumerate(names):
            if rng.random() < 0.15:
                files.append(akai_program(rng, nm, names[:i]))
            else:
                f = akai_sample(rng, nm, "c14.%d.%d" % (rng.getrandbits(24), i), markers=rng.random() < 0.3, rich_header=rng.random() < 0.5)
                if f["n"] < 4:
                    f["n"] = rng.randint(4, 400)
                    f.pop("start", None), f.pop("end", None)
                files.append(f)
        other = []
        if rng.random() < 0.4:
            other.append({"name": "OTHER", "vtype": 1, "dir": {"mode": "chain", "policy": "contiguous", "seed": 0},
                          "files": [akai_sample(rng, "KEEP ME", "c14o%d" % rng.getrandbits(20), n=rng.randint(10, 500), markers=False, rich_header=False)]})
        vols = other + [{"name": "VOL %d" % rng.randint(0, 9), "vtype": rng.choice([1, 3]),
                         "dir": {"mode": rng.choice(["chain", "chain", "run"]), "policy": rng.choice(A.POLICIES), "seed": rng.getrandbits(20)}, "files": files}]
        model = {"partitions": [{"spare": rng.choice([0, 2, 9]), "volumes": vols, "dirs_last": rng.random() < 0.3}], "trailing": 0}
        entry = rng.randrange(k)
        faults = []
        for _ in range(rng.randint(16, 30)):
            if rng.random() < 0.2:
                fld = rng.choice(AK_FIELDS)
                faults.append([[fld[1] + j, rng.getrandbits(8)] for j in range(fld[2])] if rng.random() < 0.6 else
                              [[rng.randrange(24), rng.getrandbits(8)] for _ in range(rng.randint(2, 6))])
            else:
                fld = weighted(rng, [(AK_FIELDS[0], 3), (AK_FIELDS[1], 1), (AK_FIELDS[2], 4), (AK_FIELDS[3], 3), (AK_FIELDS[4], 4), (AK_FIELDS[5], 1)])
                off = fld[1] + rng.randrange(fld[2])
                val = rng.choice([0, 1, 2, 3, 0x0A, 0x28, 0x29, 0x64, 0x70, 0x71, 0x73, 0x78, 0xF0, 0xF3, 0xFF, 0x7F, 0x80, rng.getrandbits(8), rng.getrandbits(8)])
                faults.append([[off, val]])
        for _ in range(rng.randint(1, 3)):
            # the whole 24-bit size field set to a value around the header size (a file shorter than its own header)
            v = rng.choice([0, 1, 2, 10, 11, 36, 37, 100, 139, 140, 141, 150, 0xFFFFFF, 0x800000])
            faults.append([[17, v & 0xFF], [18, (v >> 8) & 0xFF], [19, (v >> 16) & 0xFF]])
        if entry > 0 and rng.random() < 0.5:
            # the damaged name now reads exactly like an EARLIER sibling's: that sibling keeps its name (the first of two
            # equal names is never renamed) and must keep its audio
            src = files[rng.randrange(entry)]["name"]
            nb = list(A.akname(src))
            faults.append([[j, nb[j]] for j in range(12)])
            if rng.random() < 0.5:
                faults.append([[j, nb[j]] for j in range(12)] + [[16, files[rng.randrange(entry)]["ftype"]]])
        return {"fmt": "akai", "model": model, "vol": [0, len(vols) - 1], "entry": entry, "faults": faults, "block": rng.choice([4096, 4096, 510])}
    ns = rng.randint(2, 5)
    names = _far_names(rng, ns, 16, "abcdefghijkmnopqstuvwxyzABCDEFGHIJKMNOPQSTUVWXYZ0123456789", ["Piano", "Strings", "Brass", "Choir", "Kick", "Snare", "Bass", "Pad", "Bell"])
    samples = [roland_sample(rng, nm, "c14r.%d.%d" % (rng.getrandbits(24), i), max_clusters=2) for i, nm in enumerate(names)]
    for sm in samples:
        if sm["n"] < 4:
            sm["n"] = 64
            sm["points"] = [[0, 0], [0, 0], [63, 0], [0, 0], [63, 0]]
    partials = [{"name": "Part%d" % i, "samples": list(range(i, min(ns, i + 4)))} for i in range(0, ns, 4)]
    model = {"fat_version": rng.choice([1, 2]), "spare": rng.choice([1, 4]), "samples": samples, "partials": partials,
             "patches": [{"name": "PatchX", "partials": list(range(len(partials)))}], "performances": [{"name": "PerfX", "patches": [0]}],
             "volumes": [{"name": "VolX", "performances": [0]}] if rng.random() < 0.7 else []}
    record = rng.choice(["dir", "par"])
    fields = RO_DIR_FIELDS if record == "dir" else RO_PAR_FIELDS
    size = 32 if record == "dir" else 48
    faults = []
    for _ in range(rng.randint(6, 9)):
        if rng.random() < 0.2:
            fld = rng.choice(fields)
            faults.append([[fld[1] + j, rng.getrandbits(8)] for j in range(fld[2])])
        else:
            fld = rng.choice([f for f in fields if f[0] not in ("reserved", "links", "ppad")] * 2 + list(fields))
            faults.append([[fld[1] + rng.randrange(fld[2]), rng.choice([0, 1, 2, 5, 6, 7, 0x40, 0x44, 0x45, 0x7F, 0x80, 0xFF, 0xF7, rng.getrandbits(8)])]])
    return {"fmt": "roland", "model": model, "perf": 0, "entry": rng.randrange(ns), "record": record, "faults": faults, "block": 4096}


# --------------------------------------------------------------------------

def _field_of(fields, off: int) -> str:
    for name, a, n in fields:
        if a <= off < a + n:
            return name
    return "?"


def _observe(img: bytes, rot: Optional[Dict[int, int]], lspath: str, sb: Sandbox, sub: str, budget: int):
    sf = SimFile(img, rot=rot)
    with StepClock(budget) as clk:
        image, r0 = tool.open_image(sf)
        if image is None:
            return {"open_exc": r0.exc, "ls": None, "ls_exc": r0.exc, "er": tool.ExportResult(exc=r0.exc, exc_msg=r0.exc_msg, exc_tb=r0.exc_tb, budget=r0.budget)}, sf, clk.steps
        r = tool.run_ls(image, lspath)
        er = tool.run_export(image, sb, sub)
    return {"open_exc": None, "ls": tool.parse_ls_table(r.stdout), "ls_raw": r.stdout, "ls_exc": r.exc or ("budget" if r.budget else None), "er": er}, sf, clk.steps


def run(sc: dict) -> RunResult:
    res = RunResult()
    fmt = sc["fmt"]
    res.probes[fmt] += 1
    m = sc["model"]
    if fmt == "akai":
        img, lay = A.build(m)
        pi, vi = sc["vol"]
        vol = m["partitions"][pi]["volumes"][vi]
        vl = lay.partitions[pi].volumes[vi]
        if not 0 <= sc["entry"] < len(vol["files"]):
            raise ScenarioInvalid("entry")
        rec_off = vl.files[sc["entry"]].entry_off
        rec_size = 24
        fields = AK_FIELDS
        lspath = "%s/%s" % (A.partition_letter(pi), vol["name"])
        siblings = [(i, f) for i, f in enumerate(vol["files"]) if i != sc["entry"]]
        sib_pcm = {i: A.expected_pcm(f) for i, f in siblings if f["kind"] == "sample"}
        sib_names = {i: f["name"] for i, f in siblings}
        damaged_name = vol["files"][sc["entry"]]["name"]
        prefix = lspath + "/"
    else:
        img, lay = R.build(m)
        p = sc["perf"]
        perf = m["performances"][p]
        sidxs = []
        for s in R.referenced_samples(m, p):
            if s not in sidxs:
                sidxs.append(s)
        if sc["entry"] not in sidxs:
            raise ScenarioInvalid("entry not in performance")
        sl = lay.samples[sc["entry"]]
        rec_off, rec_size = (sl.dir_off, 32) if sc.get("record", "dir") == "dir" else (sl.par_off, 48)
        fields = RO_DIR_FIELDS if sc.get("record", "dir") == "dir" else RO_PAR_FIELDS
        vname = m["volumes"][0]["name"] if m["volumes"] else "All Performances"
        lspath = "%s/%s" % (vname, perf["name"])
        siblings = [(i, m["samples"][i]) for i in sidxs if i != sc["entry"]]
        sib_pcm = {i: R.expected_pcm(sm) for i, sm in siblings}
        sib_names = {i: sm["name"] for i, sm in siblings}
        damaged_name = m["samples"][sc["entry"]]["name"]
        prefix = lspath + "/"
    nontrivial = False
    digests = []
    with Sandbox("c14") as sb, knobs(sc.get("block", 4096)):
        clean, sf0, s0 = _observe(img, None, lspath, sb, "clean", 2_000_000_000)
        res.steps += s0
        if clean["open_exc"] or clean["ls"] is None or clean["er"].exc:
            raise CleanArmFailed("clean arm failed: %s %s %s" % (clean["open_exc"], clean["ls_exc"], clean["er"].exc))
        clean_rows = clean["ls"]
        # the rows of the siblings in the clean listing (by name)
        want_rows = [r for r in clean_rows if r[0] in sib_names.values()]
        if len(want_rows) != len(sib_names):
            raise CleanArmFailed("clean listing does not show every sibling by its stored name")
        clean_channels = _channels(clean["er"], prefix)
        for i, pcm in sib_pcm.items():
            if pcm not in clean_channels:
                raise CleanArmFailed("clean arm does not export sibling %r completely" % sib_names[i])
        budget = 5_000_000 + 50 * s0
        seen = set()
        for n, fault in enumerate(sc["faults"]):
            rot = {}
            flds = set()
            for off, val in fault:
                if not 0 <= off < rec_size:
                    raise ScenarioInvalid("fault outside the record")
                rot[rec_off + off] = val & 0xFF
                flds.add(_field_of(fields, off))
            if all(img[o] == v for o, v in rot.items()):
                continue          # not a damage
            # skip multi-byte damage that would turn the damaged name into a sibling's name
            if len(fault) > 1 and _name_collides(fmt, img, rot, rec_off, sib_names, earlier_ok=sc["entry"]):
                continue
            if len(fault) > 1:
                res.probes["multi_byte_fault"] += 1
                if len(fault) >= 12 and [o for o, _ in fault[:12]] == list(range(12)):
                    res.probes["name_copied_from_earlier_sibling"] += 1
            for f in flds:
                key = {"name": "fault_in_name", "pname": "fault_in_name", "type": "fault_in_type", "ftype": "fault_in_type", "size": "fault_in_size",
                       "start": "fault_in_start", "fat_entry": "fault_in_fat_entry", "cluster_top": "fault_in_cluster_top", "loop_point": "fault_in_loop_point",
                       "options": "fault_in_options", "loop_mode": "fault_in_options", "nclus": "fault_in_fat_entry"}.get(f)
                if key:
                    res.probes[key] += 1
                if f in ("type", "ftype", "size", "start", "fat_entry", "cluster_top", "loop_point", "options", "loop_mode"):
                    nontrivial = True
            res.probes["record_faults"] += 1
            res.faults["rot"] += 1
            obs, sf, st = _observe(img, rot, lspath, sb, "f%d" % n, budget)
            res.steps += st
            res.io_events += sf.io_events
            if sf.rot_hit:
                res.probes["rot_read"] += 1
            er = obs["er"]
            digests.append((sorted(rot.items()), sf.event_digest(), obs.get("ls_raw"), er.stdout, tree_digest(er.tree), er.exc))
            what = "record %s+%s damaged %s" % (sc.get("record", "entry"), sorted(flds), [(o, "0x%02x" % v) for o, v in fault][:6])
            feats = dict(fmt=fmt, field="+".join(sorted(flds)))
            viol = []
            if er.budget or obs["ls_exc"] == "budget":
                viol.append(("no_result", "%s: ls/export exceeded the step budget" % what))
            elif obs["open_exc"]:
                viol.append(("image_unreadable", "%s: the image no longer opens (%s)" % (what, obs["open_exc"])))
            else:
                if obs["ls_exc"]:
                    viol.append(("listing_aborted", "%s: ls %r raised %s" % (what, lspath, obs["ls_exc"])))
                elif obs["ls"] is None:
                    viol.append(("listing_lost", "%s: ls %r no longer shows the directory: %r" % (what, lspath, (obs.get("ls_raw") or "")[:80])))
                else:
                    rows = list(obs["ls"])
                    missing = []
                    for r in want_rows:
                        if r in rows:
                            rows.remove(r)
                        else:
                            missing.append(r)
                    if missing:
                        viol.append(("sibling_not_listed", "%s: %s no longer listed under name/type (listing now %s)" % (what, missing[:3], obs["ls"][:8])))
                    dn = [r for r in obs["ls"] if r[0] == damaged_name]
                    if not dn:
                        res.probes["damaged_item_disappeared"] += 1
                    elif dn[0] not in clean_rows:
                        res.probes["damaged_item_changed"] += 1
                if er.exc:
                    viol.append(("export_aborted", "%s: export raised %s: %s [%s]" % (what, er.exc, er.exc_msg, er.exc_tb)))
                chans = _channels(er, prefix)
                lost = [sib_names[i] for i, pcm in sib_pcm.items() if pcm not in chans]
                if lost and not er.exc:
                    viol.append(("sibling_audio_lost", "%s: audio of %s no longer exported complete (reported %s)" % (what, lost[:3], er.reported[:6])))
                elif lost:
                    viol[-1] = (viol[-1][0], viol[-1][1] + " - siblings lost: %s" % lost[:3])
            for cls, detail in viol:
                k = (cls, feats["field"])
                if k in seen:
                    continue
                seen.add(k)
                exc = er.exc or obs["ls_exc"] or ""
                res.add(PROP, cls, detail, exc=exc, **feats)
    res.digest = digest_of(digests, [v.cls for v in res.violations])
    res.state_hash = jhash([digest_of(img), rec_off, sc["faults"]])
    res.nontrivial = nontrivial
    res.sample = {"fmt": fmt, "directory": lspath, "siblings": list(sib_names.values()), "damaged": damaged_name, "record": sc.get("record", "entry"),
                  "faults": sc["faults"][:6], "n_faults": len(sc["faults"])}
    return res


def _channels(er: tool.ExportResult, prefix: str) -> set:
    out = set()
    for p in er.reported:
        if not p.startswith(prefix) or p not in er.tree:
            continue
        try:
            info = W.walk(er.tree[p])
        except W.WavInvalid:
            continue
        for c in range(info.channels):
            out.add(info.channel(c))
    return out


def _name_collides(fmt: str, img: bytes, rot: Dict[int, int], rec_off: int, sib_names: Dict[int, str], earlier_ok: int = -1) -> bool:
    n = 12 if fmt == "akai" else 16
    raw = bytearray(img[rec_off:rec_off + n])
    for o, v in rot.items():
        if 0 <= o - rec_off < n:
            raw[o - rec_off] = v
    if fmt == "akai":
        inv = {v: k for k, v in A._AK.items()}
        try:
            s = "".join(inv[b] for b in raw)
        except KeyError:
            return False
    else:
        s = raw.decode("latin-1")
    s = s.strip().upper()
    for i, x in sib_names.items():
        near = s == x.strip().upper() or sum(1 for a, b in zip(s.ljust(n), x.upper().ljust(n)) if a != b) < 2
        if near and fmt == "akai" and i < earlier_ok and s == x.strip().upper():
            continue        # an exact copy of an earlier sibling's name: that sibling keeps its name, so the fault is admissible
        if near:
            return True
    return False
