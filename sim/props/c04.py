"""C04 - every exported file is a structurally valid RIFF/WAVE PCM file.

Acknowledgement invariant: every path on an ``Exported`` line - in clean AND
fault-injected simulated exports (truncation, byte rot, failed create) - is read
back by an independent RIFF walker and by the standard library's ``wave``.
A dedicated arm sweeps the AKAI header's root-key / semitone / cents bytes and
loop-table corner values, and Roland keys.
"""
from __future__ import annotations

import random

from ..core import RunResult, digest_of, jhash, tree_digest, weighted
from ..gen_akai import gen_buildable as gen_akai, gen_sample as akai_sample
from ..gen_roland import gen_model as gen_roland
from ..model import akai as A
from ..model import cdda as C
from ..model import roland as R
from ..model import wav as W
from ..seams import Sandbox, SimFile, StepClock, VirtualFS, knobs
from .. import namesim, tool
from .c03 import gen_cdda_model

PROP = "C04"
LEVEL = "exploration"
RUNS = {"quick": 1400, "thorough": 60000}
TIME_CAP = {"quick": 300, "thorough": 900}
CHUNK = 8          # runs per worker task (cost-aware: keeps the time cap responsive)
RULE = ("four arms: (a) AKAI volumes of samples whose root-key, semitone and cents bytes and loop tables are drawn from corner values "
        "(loop_at 0 / 1 / n, length > at, duration 0/1/9998/9999/65535, 0-8 active loops, every loop type) and uniformly - the full 2^24 "
        "tuning space is sampled, not enumerated; (b) Roland images with every original-key byte class; (c) hostile-name AKAI/Roland/CDDA "
        "images (stereo merges, CDDA tracks); (d) any of those with 1-3 faults: truncation, uniform rot, rot of header bytes, a failed "
        "create (ENOSPC at the k-th file); non-trivial = at least one reported file carries a smpl chunk with loops, is stereo, or comes "
        "from a faulted run; distinct = hash of (image digest, faults)")
STATE_MEASURE = "distinct (input digest, fault list) hashes"
COMPONENTS = {"real": ["smpl_extract.formats.wav, generalized/wav, transcoder, structural.ExportManager and all parsers"],
              "stub": ["SimFile / virtual FS input with cut and rot faults", "sandboxed output; the audit hook fails the k-th create with ENOSPC"]}
ASSUMPTIONS = ["the statement is about *reported* files: a stub left behind by an export that aborted is counted as a probe, not a violation",
               "an export that raises is allowed (\"for which export succeeds\"); files reported before the exception are still checked"]
EXPECTED_PROBES = ["files_checked", "smpl_chunk", "smpl_with_loops", "stereo", "mono", "zero_frames", "faulted_run", "create_failed", "unreported_stub_left",
                   "export_raised", "akai", "roland", "cdda", "note_out_of_range_export_failed", "destination_reused"]
SHRINK = {"max_attempts": 200, "max_seconds": 60.0, "simple_values": {"policy": ["contiguous"], "block": [4096]}}


def _corner_sample(rng: random.Random, name: str, key: str) -> dict:
    n = weighted(rng, [(0, 1), (1, 1), (rng.randint(2, 50), 4), (rng.randint(50, 3000), 3)])
    f = {"kind": "sample", "name": name, "ftype": rng.choice([0xF3, 0x73]), "key": key, "n": n, "typ": rng.choice([1, 3]),
         "rate": rng.choice([44100, 22050, 0, 1, 65535, rng.randint(1, 65535)]), "policy": "contiguous", "seed": 0}
    f["note"] = rng.choice([0, 20, 21, 22, 24, 60, 108, 127, 128, 148, 255, rng.randint(0, 255)])
    f["semi"] = rng.choice([0, 1, -1, 12, -12, 50, -50, 127, -128, rng.randint(-128, 127)])
    f["cents"] = rng.choice([0, 1, -1, 50, -50, 127, -128, rng.randint(-128, 127)])
    f["loop_type"] = rng.choice([0, 1, 2, 3, 4, 5, 255])
    loops = []
    for _ in range(rng.randint(0, 8)):
        at = rng.choice([0, 1, 2, n, max(0, n - 1), rng.randint(0, max(1, n)), 0xFFFFFFFF])
        coarse = rng.choice([0, 1, at, at + 1, rng.randint(0, max(1, at if at < 2 ** 31 else 5)), 0xFFFFFFFF])
        dur = rng.choice([0, 1, 2, 9998, 9999, 10000, 65535, rng.randint(0, 65535)])
        loops.append([at, rng.randint(0, 65535), coarse, dur])
    f["loops"] = loops
    if n > 1 and rng.random() < 0.3:
        s = rng.randint(0, n)
        f["start"], f["end"] = s, rng.randint(s, n)
    return f


def gen(rng: random.Random, tier: str, index: int) -> dict:
    arm = weighted(rng, [("akai_corner", 5), ("roland", 2), ("names", 3)])
    if arm == "akai_corner":
        files = [_corner_sample(rng, "S%03d" % i, "c4.%d.%d" % (rng.getrandbits(24), i)) for i in range(rng.randint(1, 10))]
        sc = {"fmt": "akai", "model": {"partitions": [{"spare": 1, "volumes": [{"name": "SWEEP", "vtype": 3, "dir": {"mode": "chain", "policy": "contiguous", "seed": 0},
                                                                                 "files": files}]}], "trailing": 0}, "block": rng.choice([4096, 4096, 64])}
    elif arm == "roland":
        m = gen_roland(rng, max_samples=5, max_perf=2, max_vols=1, max_clusters=2)
        for sm in m["samples"]:
            sm["orig_key"] = rng.choice([0, 20, 21, 60, 127, 128, 200, 255, rng.randint(0, 255)])
        sc = {"fmt": "roland", "model": m, "block": 4096}
    else:
        sc = namesim.gen(rng, cdda_ok=True, pairs=True)
    sc["faults"] = []
    sc["reuse_dest"] = rng.random() < 0.4
    if rng.random() < 0.45:
        for _ in range(rng.randint(1, 3)):
            k = weighted(rng, [("cut", 3), ("rot", 4), ("create_fail", 2)])
            if k == "cut":
                sc["faults"].append(["cut", rng.random()])
            elif k == "rot":
                sc["faults"].append(["rot", rng.random(), rng.getrandbits(8)])
            else:
                sc["faults"].append(["create_fail", rng.randint(1, 6)])
    return sc


def run(sc: dict) -> RunResult:
    import contextlib
    res = RunResult()
    fmt, m = sc["fmt"], sc["model"]
    res.probes[fmt] += 1
    cm = contextlib.nullcontext()
    if fmt == "akai":
        img, lay = A.build(m)
        hot = [(f.sectors_abs[0], 140) for _, _, f in lay.files()] + [(f.entry_off, 24) for _, _, f in lay.files()]
    elif fmt == "roland":
        img, lay = R.build(m)
        hot = [(s.par_off, 48) for s in lay.samples] + [(s.dir_off, 32) for s in lay.samples]
    else:
        img, lay, hot = C.bin_bytes(m), None, []
    cut, rot, fail_at = None, {}, None
    for f in sc.get("faults", []):
        if f[0] == "cut":
            cut = int(f[1] * len(img))
        elif f[0] == "rot":
            if hot and f[2] % 3:
                a, n = hot[int(f[1] * len(hot)) % len(hot)]
                rot[a + (f[2] * 7) % n] = (f[2] * 13 + 5) & 0xFF
            elif img:
                rot[int(f[1] * len(img)) % len(img)] = f[2]
        else:
            fail_at = f[1]
    faulted = bool(cut is not None or rot or fail_at)
    if faulted:
        res.probes["faulted_run"] += 1
    sf = SimFile(img, cut=cut, rot=rot)
    if fmt == "cdda":
        vfs = VirtualFS({"/vfs/d.cue": C.cue_text(m).encode("ascii", "replace"), "/vfs/" + m["bin_name"]: sf})
        cm, target = vfs.installed(), "/vfs/d.cue"
    else:
        target = sf
    with cm, Sandbox("c04", fail_create_at=fail_at) as sb, knobs(sc.get("block", 4096)), StepClock(300_000_000) as clk:
        image, r0 = tool.open_image(target)
        if image is None:
            er = tool.ExportResult(exc=r0.exc)
        else:
            if sc.get("reuse_dest") and faulted:
                # the destination already holds a complete export of the undamaged image (a user re-running the tool)
                sf_clean = SimFile(img)
                if fmt == "cdda":
                    vfs2 = VirtualFS({"/vfs/d.cue": C.cue_text(m).encode("ascii", "replace"), "/vfs/" + m["bin_name"]: sf_clean})
                    with vfs2.installed():
                        image0, _ = tool.open_image("/vfs/d.cue")
                else:
                    image0, _ = tool.open_image(sf_clean)
                if image0 is not None:
                    saved, sb.fail_create_at = sb.fail_create_at, None
                    tool.run_export(image0, sb)
                    sb.fail_create_at = saved
                    sb._n_create = 0
                    res.probes["destination_reused"] += 1
            er = tool.run_export(image, sb)
        if sb.create_failed:
            res.probes["create_failed"] += 1
            res.faults["create_fail"] += 1
    if sf.cut_hit:
        res.faults["cut"] += 1
    if sf.rot_hit:
        res.faults["rot"] += 1
    if er.exc:
        res.probes["export_raised"] += 1
        if er.exc in ("FormatFieldError", "error", "StreamError") or "struct" in (er.exc_msg or ""):
            res.probes["note_out_of_range_export_failed"] += 1
    if er.budget:
        res.add(PROP, "no_result", "export exceeded the step budget")
    nontrivial = faulted
    for p in er.reported:
        res.probes["files_checked"] += 1
        if p not in er.tree:
            res.add(PROP, "reported_but_missing", "%s is reported as exported but does not exist (export exc: %s)" % (p, er.exc), faulted=faulted)
            continue
        try:
            info = W.walk(er.tree[p])
        except W.WavInvalid as x:
            res.add(PROP, "invalid_wav", "%s (%d bytes): %s" % (p, len(er.tree[p]), x), reason=x.reason, faulted=faulted,
                    create_failed=bool(sb.create_failed))
            continue
        if info.has_smpl:
            res.probes["smpl_chunk"] += 1
            if info.smpl_loops:
                res.probes["smpl_with_loops"] += 1
                nontrivial = True
        res.probes["stereo" if info.channels == 2 else "mono"] += 1
        if info.channels == 2:
            nontrivial = True
        if info.frames == 0:
            res.probes["zero_frames"] += 1
    stubs = [p for p in er.tree if p not in er.reported]
    if stubs:
        res.probes["unreported_stub_left"] += 1
    res.steps = clk.steps
    res.io_events = sf.io_events
    res.digest = digest_of(sf.event_digest(), er.stdout, tree_digest(er.tree), er.exc, [v.cls for v in res.violations])
    res.state_hash = jhash([digest_of(img), sc.get("faults")])
    res.nontrivial = nontrivial
    res.sample = {"fmt": fmt, "faults": sc.get("faults"), "reported": er.reported[:6], "export_exc": er.exc}
    return res
