"""C05 - left/right pairs merge into one stereo file; no sample is lost or duplicated.

Conservation / exactly-once oracle over the written files of simulated exports:
every sample carries attributable PCM, so each channel of each written file has
an identifiable owner.
"""
from __future__ import annotations

import random
from typing import Dict, List, Optional

from ..core import RunResult, digest_of, jhash, tree_digest
from ..model import wav as W
from ..names import component_ok, lr_split
from .. import namesim

PROP = "C05"
LEVEL = "exploration"
RUNS = {"quick": 1500, "thorough": 60000}
TIME_CAP = {"quick": 300, "thorough": 900}
CHUNK = 8          # runs per worker task (cost-aware: keeps the time cap responsive)
RULE = ("seeded sibling-name multisets for AKAI volumes (41-character alphabet) and Roland performances (ASCII incl. separators, quotes, "
        "control bytes), biased to near-collisions: stems with and without -L/-R/ L/ R, several separators, duplicates, a stem equal to "
        "another sample's full name, names differing only in punctuation, both directory orders, equal and unequal pair lengths; "
        "non-trivial = the directory holds at least one L/R pair; distinct = hash of the name multiset per directory")
STATE_MEASURE = "distinct (format, per-directory ordered name lists) hashes"
COMPONENTS = {"real": ["smpl_extract.structural (naming routines, combine_stereo_routine, ExportManager)", "generalized/sample", "transcoder", "akai/*", "roland/s7xx/*"],
              "stub": ["SimFile input", "sandboxed output behind the audit hook"]}
ASSUMPTIONS = ["the pairing rule (one 2-channel file named by the stem, L in channel 0) is asserted only where exactly one L and one R sibling exist for that stem+separator and "
               "no other sibling could sanitise to either name or to the stem; elsewhere only conservation and L-before-R are asserted",
               "samples have >= 4 words so that every channel is attributable"]
EXPECTED_PROBES = ["pair_unambiguous", "pair_ambiguous", "r_before_l", "stem_equals_sibling", "duplicate_names", "unequal_pair", "akai", "roland", "stereo_file_written"]
SHRINK = {"max_attempts": 200, "max_seconds": 60.0, "simple_values": {"policy": ["contiguous"], "block": [4096]}}


def gen(rng: random.Random, tier: str, index: int) -> dict:
    return namesim.gen(rng, cdda_ok=False, pairs=True)


def _loose(name: str) -> str:
    """Everything that could plausibly be sanitised away is folded: used only to decide *ambiguity* conservatively."""
    out = "".join(c if (c.isalnum() or c == "_") else " " for c in name)
    return " ".join(out.split()).upper()


def _san(name: str) -> str:
    """The statement's view of sanitising, used to decide whether two siblings could end up with the same name: every
    character outside word characters, space, '-', '.', '#' may be replaced by a blank; runs of blanks are folded (conservative).
    '-' and ' ' stay distinct, so 'PAD-L' and 'PAD L' are different names."""
    out = "".join(c if (c.isalnum() or c in "_-.# ") else " " for c in name)
    return " ".join(out.split()).upper().rstrip(" .")          # a component may not end in a blank or a dot


def _as_exported(name: str) -> str:
    """The name roughly as a sanitiser may leave it (unsafe characters blanked, no trailing blank or dot): only used to
    find siblings that *could* turn into a half of a pair."""
    return "".join(c if (c.isalnum() or c in "_-.# ") else " " for c in name).rstrip(" .")


def _as_exported2(name: str) -> str:
    """Same, with every run of unsafe characters turned into ONE blank."""
    import re
    return re.sub(r"[^\w\-.# ]+", " ", name).rstrip(" .")


def _split_any(name: str):
    return lr_split(name) or lr_split(name.rstrip(" .")) or lr_split(_as_exported2(name)) or lr_split(_as_exported(name))


def _norm_sep(sep: str) -> str:
    import re
    return re.sub(r"\s+", " ", sep)


def owner_of(channel: bytes, refs: List[namesim.SampleRef]) -> Optional[namesim.SampleRef]:
    # a channel may hold the complete audio (possibly padded) or, for the longer half of an unequal pair, a prefix of it
    best = None
    for r in refs:
        k = min(len(r.pcm), len(channel))
        if k >= 8 and channel[:k] == r.pcm[:k] and (best is None or k > min(len(best.pcm), len(channel))):
            best = r
    return best


def run(sc: dict) -> RunResult:
    res = RunResult()
    obs = namesim.execute(sc, "c05")
    er = obs.er
    res.probes[obs.fmt] += 1
    refs = obs.samples
    by_dir: Dict[tuple, List[namesim.SampleRef]] = {}
    for r in refs:
        by_dir.setdefault(r.directory, []).append(r)
    nontrivial = False
    feats = {}
    # classify the multisets
    unamb = []          # (dir, L ref, R ref, stem)
    for d, rs in by_dir.items():
        names = [r.name.rstrip(" ") for r in rs]
        if len(set(names)) != len(names):
            res.probes["duplicate_names"] += 1
        splits = [(r, lr_split(r.name)) for r in rs]
        groups: Dict[tuple, Dict[str, list]] = {}
        for r, sp in splits:
            if sp:
                groups.setdefault((sp[0], sp[1]), {"L": [], "R": []})[sp[2]].append(r)
        loose_all = [_loose(r.name) for r in rs]
        for (stem, sep), g in groups.items():
            if not (g["L"] and g["R"]):
                continue
            nontrivial = True
            l, rr = g["L"][0], g["R"][0]
            if len(l.pcm) != len(rr.pcm):
                res.probes["unequal_pair"] += 1
            if rs.index(rr) < rs.index(l):
                res.probes["r_before_l"] += 1
            amb = len(g["L"]) != 1 or len(g["R"]) != 1
            # another sibling that could sanitise to either half or to the stem, or another pair with the same loose stem
            for r, sp in splits:
                if r is l or r is rr:
                    continue
                if _san(r.name) in (_san(l.name), _san(rr.name), _san(stem)):
                    amb = True
                sp = sp or _split_any(r.name)      # 'KICK L.' is exported as 'KICK L', 'KICK +L' perhaps as 'KICK  L'
                if sp and _san(sp[0]) == _san(stem):
                    other_side = "R" if sp[2] == "L" else "L"
                    has_partner = False
                    for x in rs:
                        xs = _split_any(x.name)
                        if x is not r and xs and _san(xs[0]) == _san(sp[0]) and _norm_sep(xs[1]) == _norm_sep(sp[1]) and xs[2] == other_side:
                            has_partner = True
                    if has_partner or (_san(sp[0] + sp[1]) == _san(stem + sep)):
                        # another complete pair of the same stem (its merged name collides with ours), or the same
                        # stem + separator again after sanitising
                        amb = True
            if any(_loose(r.name) == _loose(stem) for r in rs if r is not l and r is not rr):
                res.probes["stem_equals_sibling"] += 1
            if _loose(stem) == "" or stem != stem.strip():
                amb = True
            # "named after the common stem" is asserted only for stems that are already safe components
            # (otherwise the sanitiser must alter the stem, and how it does so is C06's business)
            if component_ok(stem) is not None or "(" in stem or ")" in stem:
                amb = True
            for on in obs.siblings.get(d, []):
                if _san(on) in (_san(l.name), _san(rr.name), _san(stem)):
                    amb = True
            if amb:
                res.probes["pair_ambiguous"] += 1
            else:
                res.probes["pair_unambiguous"] += 1
                unamb.append((d, l, rr, stem))
    if er.exc:
        res.add(PROP, "export_exception", "export raised %s: %s [%s]" % (er.exc, er.exc_msg, er.exc_tb), exc=er.exc)
    # a Roland sample referenced by k performances is legitimately written k times (once per directory):
    # attribution is by content, conservation by multiplicity
    by_pcm: Dict[bytes, List[namesim.SampleRef]] = {}
    for r in refs:
        by_pcm.setdefault(r.pcm, []).append(r)
    canon = [rs[0] for rs in by_pcm.values()]
    # attribute every channel of every written file
    owners: Dict[str, List[tuple]] = {}      # sid of the canonical ref -> [(path, channel)]
    total_channels = 0
    incomplete = []
    stereo_files = {}
    for path in sorted(er.tree):
        try:
            info = W.walk(er.tree[path])
        except W.WavInvalid as x:
            if path in er.reported:
                res.add(PROP, "invalid_wav", "%s: %s" % (path, x))
            continue
        if path not in er.reported:
            continue
        total_channels += info.channels
        ch_owner = []
        for c in range(info.channels):
            o = owner_of(info.channel(c), canon)
            ch_owner.append(o)
            if o is None:
                res.add(PROP, "foreign_channel", "%s channel %d holds audio of no sample in the image" % (path, c))
            else:
                owners.setdefault(o.sid, []).append((path, c))
                ch_owner_complete = info.channel(c)[:len(o.pcm)] == o.pcm
                if not ch_owner_complete:
                    incomplete.append((path, c, o, info.channels))
        if info.channels == 1 and incomplete and incomplete[-1][0] == path:
            res.add(PROP, "frames_lost", "%s is not the complete audio of %r" % (path, incomplete[-1][2].name))
        if info.channels == 2 and ch_owner[0] is not None and ch_owner[1] is not None and len(ch_owner[0].pcm) == len(ch_owner[1].pcm) \
                and any(x[0] == path for x in incomplete):
            res.add(PROP, "frames_lost", "%s: halves of equal length (%d bytes) but a channel is incomplete" % (path, len(ch_owner[0].pcm)))
        if info.channels == 2:
            res.probes["stereo_file_written"] += 1
            stereo_files[path] = ch_owner
            a, b = ch_owner
            if a is not None and b is not None:
                ta, tb = _loose(a.name).split(" "), _loose(b.name).split(" ")
                if not (ta[-1:] == ["L"] and tb[-1:] == ["R"] and ta[:-1] == tb[:-1]):
                    res.add(PROP, "stereo_channel_order", "%s: channel 0 is %r, channel 1 is %r (expected an L sample then its R sample)" % (path, a.name, b.name))
        elif info.channels > 2:
            res.add(PROP, "too_many_channels", "%s has %d channels" % (path, info.channels))
    if not er.exc:
        lost = [r for r in canon if len(owners.get(r.sid, [])) < len(by_pcm[r.pcm])]
        dup = [r for r in canon if len(owners.get(r.sid, [])) > len(by_pcm[r.pcm])
               or len({p.rsplit("/", 1)[0] for p, _ in owners.get(r.sid, [])}) < len(owners.get(r.sid, []))]
        if lost:
            collide = len(er.reported) != len(set(er.reported)) or len(er.tree) < len(er.reported)
            res.add(PROP, "sample_lost", "%d sample(s) written fewer times than referenced, e.g. %r in %s (%d of %d); names in that directory: %s; others %s" % (
                len(lost), lost[0].name, lost[0].directory, len(owners.get(lost[0].sid, [])), len(by_pcm[lost[0].pcm]),
                [r.name for r in by_dir[lost[0].directory]], obs.siblings.get(lost[0].directory)), path_collision=collide)
        if dup:
            res.add(PROP, "sample_duplicated", "sample %r appears in %s" % (dup[0].name, owners[dup[0].sid]))
        if total_channels != len(refs) and not lost and not dup:
            res.add(PROP, "channel_sum", "channels of all written files = %d, samples = %d" % (total_channels, len(refs)))
        # the pairing rule where the multiset is unambiguous
        for d, l, rr, stem in unamb:
            hit = [p for p, ow in stereo_files.items() if ow[0] is not None and ow[1] is not None and ow[0].pcm == l.pcm and ow[1].pcm == rr.pcm]
            if not hit:
                where = owners.get(by_pcm[l.pcm][0].sid), owners.get(by_pcm[rr.pcm][0].sid)
                res.add(PROP, "pair_not_merged", "%r / %r in %s were not written as one stereo file (found at %s); siblings %s" % (
                    l.name, rr.name, d, where, [r.name for r in by_dir[d]]))
            else:
                # the same pair may be referenced from several (Roland) directories, in some of which it is ambiguous
                bases = [h.rsplit("/", 1)[-1][:-4] for h in hit]
                # the stem is a clean component here (checked above), so sanitising leaves it as it is
                if not any(b == stem for b in bases):
                    res.add(PROP, "stereo_name", "pair %r/%r written as %r, stem is %r" % (l.name, rr.name, bases, stem))
    res.steps, res.io_events = obs.steps, obs.io_events
    res.digest = digest_of(obs.event_digest, er.stdout, tree_digest(er.tree), [v.cls for v in res.violations])
    res.state_hash = jhash([obs.fmt, [(d, [r.name for r in rs]) for d, rs in sorted(by_dir.items())]])
    res.nontrivial = nontrivial
    res.sample = {"fmt": obs.fmt, "directories": [[list(d), [r.name for r in rs]] for d, rs in list(by_dir.items())[:3]], "reported": er.reported[:8]}
    return res


def refs_for_path(path: str, refs, fmt):
    return refs
