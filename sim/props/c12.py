"""C12 - PCM transcoding maps every source channel to the same-numbered output channel.

System: the real transcoder fed by SimFile-backed source streams.  The
simulator decides the block-size knob and where each source hits EOF relative
to a block edge.  Oracle: per-channel reference model with attributable bytes.
"""
from __future__ import annotations

import random
from typing import List

from ..core import RunResult, ScenarioInvalid, digest_of, jhash, pcm_bytes, weighted
from ..seams import SimFile, StepClock, knobs

PROP = "C12"
LEVEL = "exploration"
RUNS = {"quick": 6000, "thorough": 300000}
TIME_CAP = {"quick": 300, "thorough": 900}
RULE = ("seeded sets of 1-3 source streams x 1-3 interleaved channels x width {1,2,4} x byte order per stream x frame counts (equal, "
        "unequal, 0, trailing partial frame) x block-size knob {1 frame .. 64 KiB}; EOF of each source lands at a seeded position "
        "relative to a block edge; equal-length scenarios are re-run under two more knobs and must give identical bytes; non-trivial = "
        ">=2 channels in total or unequal lengths; distinct = hash of (shape, byte orders, lengths, knob)")
STATE_MEASURE = "distinct (streams x channels x width x byte orders x lengths x knob) hashes"
COMPONENTS = {"real": ["smpl_extract.transcoder (make_transcoder, Passthrough/PipelineTranscoder)", "smpl_extract.data_streams", "numpy"],
              "stub": ["source streams are SimFiles"]}
ASSUMPTIONS = ["destination encoding is little-endian with the sources' width and the total channel count (what export_wav asks for)"]
NOT_COVERED = ["a really big-endian numpy: the host-byte-order arm patches the tool's module-level system_byte_order (what the property's quantifier "
               "calls 'patched'); numpy keeps decoding natively, so the arm checks that the tool's swap decisions cancel out, not numpy on a BE CPU"]
EXPECTED_PROBES = ["mixed_byte_order", "interleaved_stream", "unequal_lengths", "partial_trailing_frame", "zero_length_source", "passthrough",
                   "eof_on_block_edge", "eof_inside_block", "one_frame_blocks", "width_1", "width_4", "host_byte_order_big"]
SHRINK = {"max_attempts": 400, "max_seconds": 30.0, "simple_values": {"block": [4096], "big": [False]}}
KNOBS = [1, 2, 3, 4, 6, 8, 16, 64, 510, 4096, 4096, 8192, 65536]


def gen(rng: random.Random, tier: str, index: int) -> dict:
    width = rng.choice([1, 2, 2, 2, 4])
    ns = weighted(rng, [(1, 3), (2, 4), (3, 2)])
    equal = rng.random() < 0.5
    base = weighted(rng, [(0, 1), (1, 1), (rng.randint(2, 40), 5), (rng.randint(40, 3000), 3)])
    streams = []
    for i in range(ns):
        ch = weighted(rng, [(1, 5), (2, 3), (3, 1)])
        frames = base if equal else weighted(rng, [(base, 2), (max(0, base + rng.randint(-5, 5)), 3), (rng.randint(0, 2 * base + 3), 2), (0, 1)])
        extra = rng.randint(1, ch * width - 1) if (ch * width > 1 and rng.random() < 0.25) else 0
        streams.append({"ch": ch, "big": rng.random() < 0.4, "frames": frames, "extra": extra, "key": "t%d.%d" % (rng.getrandbits(24), i)})
    block = rng.choice(KNOBS)
    if rng.random() < 0.3 and base > 0:
        # make EOF land exactly on / just around a block edge
        tot = max(s["ch"] for s in streams) * width
        block = max(1, (base // rng.randint(1, 4)) * tot + rng.choice([0, 0, -1, 1]))
    return {"width": width, "streams": streams, "block": block, "host_big": rng.random() < 0.3}


def _source_bytes(st: dict, width: int):
    """Returns (raw bytes incl. trailing partial frame, per-channel little-endian byte strings)."""
    ch, frames = st["ch"], st["frames"]
    chans_le = [pcm_bytes("%s.c%d" % (st["key"], c), (frames * width + 1) // 2)[:frames * width] for c in range(ch)]
    raw = bytearray()
    for f in range(frames):
        for c in range(ch):
            v = chans_le[c][f * width:(f + 1) * width]
            raw += v[::-1] if st["big"] else v
    raw += bytes([0x5A]) * st.get("extra", 0)
    return bytes(raw), chans_le


def _transcode(sc: dict, block: int, res: RunResult):
    from smpl_extract.data_streams import DataStream, Endianess, StreamEncoding
    from smpl_extract.transcoder import make_transcoder
    width = sc["width"]
    dss, sfs = [], []
    total_ch = 0
    for st in sc["streams"]:
        raw, _ = _source_bytes(st, width)
        sf = SimFile(raw)
        sfs.append(sf)
        enc = StreamEncoding(endianess=Endianess.BIG if st["big"] else Endianess.LITTLE, sample_width=width,
                             num_interleaved_channels=st["ch"])
        dss.append(DataStream(stream=sf, encoding=enc))
        total_ch += st["ch"]
    dest = StreamEncoding(endianess=Endianess.LITTLE, sample_width=width, num_interleaved_channels=total_ch)
    out = bytearray()
    exc = None
    nblocks = 0
    import smpl_extract.transcoder as _tr
    saved_host = _tr.system_byte_order
    if sc.get("host_big"):
        # the tool's notion of the host byte order is a module-level name: patch it.  Decoding and encoding both use
        # numpy's native dtypes, so the byte-level result must stay the same whatever the tool believes the host is.
        _tr.system_byte_order = Endianess.BIG
    with knobs(block), StepClock(20_000_000) as clk:
        try:
            tr = make_transcoder(dss, dest)
            kind = type(tr).__name__
            for blk in tr:
                out += blk
                nblocks += 1
        except Exception as e:      # noqa: BLE001
            exc = "%s: %s" % (type(e).__name__, str(e)[:120])
            kind = "?"
    _tr.system_byte_order = saved_host
    res.steps += clk.steps
    res.io_events += sum(s.io_events for s in sfs)
    return bytes(out), exc, kind, nblocks, [s.event_digest() for s in sfs]


def run(sc: dict) -> RunResult:
    res = RunResult()
    width = sc["width"]
    streams = sc["streams"]
    if width not in (1, 2, 4) or not streams or any(s["ch"] < 1 or s["frames"] < 0 for s in streams):
        raise ScenarioInvalid("bad shape")
    block = sc["block"]
    total_ch = sum(s["ch"] for s in streams)
    frames = [s["frames"] for s in streams]
    shortest, longest = min(frames), max(frames)
    orders = {s["big"] for s in streams}
    if len(orders) > 1 and width > 1:
        res.probes["mixed_byte_order"] += 1
    if any(s["ch"] > 1 for s in streams):
        res.probes["interleaved_stream"] += 1
    if shortest != longest:
        res.probes["unequal_lengths"] += 1
    if any(s.get("extra") for s in streams):
        res.probes["partial_trailing_frame"] += 1
    if shortest == 0:
        res.probes["zero_length_source"] += 1
    res.probes["width_%d" % width] += 1
    if sc.get("host_big"):
        res.probes["host_byte_order_big"] += 1
    bf = max(1, block // (max(s["ch"] for s in streams) * width))
    if bf == 1:
        res.probes["one_frame_blocks"] += 1
    if shortest and shortest % bf == 0:
        res.probes["eof_on_block_edge"] += 1
    elif shortest:
        res.probes["eof_inside_block"] += 1

    out, exc, kind, nblocks, evd = _transcode(sc, block, res)
    if kind == "PassthroughTranscoder":
        res.probes["passthrough"] += 1
    mixed = len(orders) > 1
    inter = any(s["ch"] > 1 for s in streams)
    feats = dict(mixed_byte_order=mixed, interleaved=inter)
    fsz = total_ch * width
    if exc:
        res.add(PROP, "transcode_exception", "%s (streams %s, width %d, block %d)" % (exc, [(s["ch"], s["big"], s["frames"]) for s in streams], width, block), **feats)
    elif len(out) % fsz:
        res.add(PROP, "partial_output_frame", "output of %d bytes is not a whole number of %d-byte frames" % (len(out), fsz), **feats)
    else:
        nout = len(out) // fsz
        if nout < shortest or nout > longest:
            res.add(PROP, "frame_count", "output has %d frames, sources have %s (block %d)" % (nout, frames, block), **feats)
        # channel c of frame f for f below the shortest source
        chans = []
        for st in streams:
            chans += _source_bytes(st, width)[1]
        bad = None
        upto = min(nout, shortest)
        for c in range(total_ch):
            got = b"".join(out[f * fsz + c * width:f * fsz + (c + 1) * width] for f in range(upto))
            want = chans[c][:upto * width]
            if got != want:
                f0 = next(i for i in range(upto) if got[i * width:(i + 1) * width] != want[i * width:(i + 1) * width])
                g = got[f0 * width:(f0 + 1) * width]
                swapped = g == want[f0 * width:(f0 + 1) * width][::-1]
                other = next((c2 for c2 in range(total_ch) if chans[c2][f0 * width:(f0 + 1) * width] in (g, g[::-1])), None)
                bad = (c, f0, swapped, other)
                break
        if bad:
            res.add(PROP, "channel_data", "output channel %d frame %d differs from source channel %d (%s); streams %s width %d block %d" % (
                bad[0], bad[1], bad[0], "byte-swapped" if bad[2] else ("holds channel %s" % bad[3] if bad[3] is not None else "foreign bytes"),
                [(s["ch"], s["big"], s["frames"]) for s in streams], width, block), **feats)
        elif shortest == longest and not res.violations:
            # equal lengths: exactly that many frames, whatever the block size
            for b2 in sc.get("other_blocks", [width * total_ch, 4096 if block != 4096 else 510]):
                out2, exc2, _, _, _ = _transcode(sc, b2, res)
                if exc2 or out2 != out:
                    res.add(PROP, "block_size_dependence", "block %d and block %d give different output (%d vs %d bytes, exc %s)" % (block, b2, len(out), len(out2), exc2), **feats)
                    break
    res.digest = digest_of(evd, out, [v.cls for v in res.violations])
    res.state_hash = jhash([width, [(s["ch"], s["big"], s["frames"], s.get("extra", 0)) for s in streams], block])
    res.nontrivial = total_ch >= 2 or shortest != longest
    res.sample = {"width": width, "streams": [(s["ch"], "BE" if s["big"] else "LE", s["frames"], s.get("extra", 0)) for s in streams], "block": block,
                  "transcoder": kind, "out_frames": len(out) // fsz}
    return res
