"""C13 - ``ls`` and ``export`` terminate with bounded resources on any input file.

Fault sequences on stored bytes + a deterministic bounded-liveness clock.  Every
scenario runs in a forked child (address-space and CPU limits as backstops):
first the clean arm (cost s0 per operation, resident-set baseline), then the
same operations on the faulted image under a step budget
    B = 5e6 + 50*s0 + 40*|image|
and a resident-set bound   RSS <= RSS0 + 64 MiB + 24*|image|.
Any exception type counts as "finished with an error".
"""
from __future__ import annotations

import json
import os
import random
import resource
import select
import signal
import struct
import time
from typing import Dict, List, Optional, Tuple

from ..core import RunResult, ScenarioInvalid, digest_of, jhash, weighted
from ..gen_akai import gen_buildable as gen_akai
from ..gen_roland import gen_model as gen_roland
from ..model import akai as A
from ..model import cdda as C
from ..model import containers as K
from ..model import roland as R
from ..seams import Sandbox, SimFile, StepClock, VirtualFS
from .. import tool
from .c03 import gen_cdda_model
from .c09 import _paths as model_paths

PROP = "C13"
LEVEL = "fault_enumeration"
RUNS = {"quick": 800, "thorough": 30000}
TIME_CAP = {"quick": 400, "thorough": 900}
CHUNK = 4          # runs per worker task (cost-aware: keeps the time cap responsive)
RULE = ("(i) random and structured-random byte strings of lengths {0,1,139,202,8192,24574,1e5,3e6}; (ii) generated AKAI / Roland / CDDA images "
        "with 1-4 faults: targeted rot of SAT/FAT words (free, end, reserved, error, in-range link incl. self/cycle, out of range), partition "
        "size, volume/file entry pointers and sizes, sample header counts/markers, keygroup counts and addresses, Roland ID counters, pointer "
        "lists, fat entry, cluster_top, loop points; uniform rot; truncation; EIO; cue-sheet line faults (dropped, duplicated, huge numbers, "
        "missing FILE, garbage, data-track mode); operations = ls at the root and at the clean model's paths, then export; non-trivial = at "
        "least one fault byte was actually read; distinct = hash of (faulted image digest, operations)")
STATE_MEASURE = "distinct (faulted input digest, operation list) hashes"
COMPONENTS = {"real": ["smpl_extract (whole tool)", "construct", "numpy"],
              "stub": ["SimFile / virtual FS with rot, cut and EIO faults", "sandboxed output", "each scenario in a forked child under RLIMIT_AS / RLIMIT_CPU"]}
ASSUMPTIONS = ["step clock = sys.monitoring PY_START+JUMP; C-level loops are bounded by the CPU backstop only (class cpu_backstop)",
               "bounds are relative to the clean arm of the same image with >= 20x margin", "1 in 25 runs is repeated through the real CLI under RLIMIT_CPU/RLIMIT_AS"]
EXPECTED_PROBES = ["random_bytes", "akai", "roland", "cdda", "cue_long_title", "fault_sat_word", "fault_fat_word", "fault_count_field", "fault_pointer", "fault_size_field",
                   "fault_keygroup", "fault_cue_line", "fault_uniform_rot", "fault_cut", "fault_eio", "rot_read", "ended_with_error", "ended_ok", "cli_crosscheck"]
SHRINK = {"max_attempts": 80, "max_seconds": 150.0, "simple_values": {"policy": ["contiguous"]}}
CLI_EVERY = 25
CPU_LIMIT_S = 45


# --------------------------------------------------------------------------
# generation
# --------------------------------------------------------------------------

def _rand_bytes_scenario(rng: random.Random) -> dict:
    n = rng.choice([0, 1, 139, 202, 8192, 24574, 100000, 100000, 3000000])
    style = weighted(rng, [("random", 3), ("zeros", 1), ("ff", 1), ("akai_magic", 3), ("roland_id", 3), ("mdf_sync", 1), ("mdx", 1), ("cue_text", 1)])
    return {"fmt": "bytes", "n": n, "style": style, "key": "rb%d" % rng.getrandbits(30), "seed": rng.getrandbits(30)}


def _bytes_of(sc: dict) -> bytes:
    n, style = sc["n"], sc["style"]
    rng = random.Random(sc["seed"])
    from ..core import pcm_bytes
    if style == "zeros":
        return bytes(n)
    if style == "ff":
        return b"\xFF" * n
    base = bytearray(pcm_bytes(sc["key"], min(n, 200000) // 2 + 1)[:min(n, 200000)])
    if n > len(base):
        base = bytearray((bytes(base) * (n // len(base) + 1))[:n])
    if style == "akai_magic" and n >= 202:
        # plausible partition headers sprinkled in
        for off in [0] + [rng.randrange(0, max(1, n - 202)) // 8192 * 8192 for _ in range(3)]:
            if off + 202 <= n:
                size = rng.choice([1, 2, 3, 4, 100, 0xFFFF, 0])
                x = size // 128 - 1
                base[off:off + 202] = struct.pack("<H", size) + b"\0\0" + A.MAGIC + bytes([0x55, (x // 2 + 0xBA) & 0xFF]) + b"\x2F\x00"
    elif style == "roland_id" and n >= 0x200:
        ida = struct.pack("<I", 1) + R.s("S770 MR25A", 10) + b"\0\0" + R.s("", 15) + b"\0" + R.s("S-770 Hard Disk Ver. 1.00", 31) + b"\0" \
            + R.s("Copyright Roland", 31) + b"\0" + b"\0" * 160 + R.s("X", 16) + struct.pack("<IHHHHH", 0, *[rng.choice([0, 1, 3, 0x80, 0xFFFF]) for _ in range(5)])
        base[0:len(ida)] = ida
        if n >= R.FAT_OFF + 4 and rng.random() < 0.7:
            base[R.FAT_OFF:R.FAT_OFF + 2] = b"\xFA\xFF"
            if n >= R.FAT_OFF + 2 * R.FAT_N:
                base[R.FAT_OFF + 2 * R.FAT_N - 4:R.FAT_OFF + 2 * R.FAT_N] = b"\xFF\xFF\xFF\xFF"
    elif style == "mdf_sync" and n >= 16:
        base[0:16] = b"\x00" + b"\xFF" * 10 + b"\x00" + bytes([0, 2, 0]) + b"\x01"
    elif style == "mdx" and n >= 64:
        base[0:64] = K.to_mdx(b"")[:48] + struct.pack("<Q", rng.choice([0, 64, n, n * 2, 2 ** 63])) + b"\0" * 8
    elif style == "cue_text":
        return ('FILE "x.bin" BINARY\n' + "".join("  TRACK %02d AUDIO\n    INDEX 01 00:00:%02d\n" % (i, i) for i in range(1, 20))).encode()[:max(n, 30)]
    return bytes(base)


def _targets(sc: dict, img: bytes, lay) -> List[tuple]:
    """[(kind, offset, width)] of interesting fields in the clean image."""
    fmt, m = sc["fmt"], sc["model"]
    out = []
    if fmt == "akai":
        for p in lay.partitions:
            out.append(("size_field", p.base, 2))
            used = set()
            for v in p.volumes:
                out.append(("pointer", v.entry_off + 14, 2))
                out.append(("count_field", v.entry_off + 12, 2))
                used.update(v.dir_chain)
                for f in v.files:
                    used.update(f.chain)
                    out.append(("size_field", f.entry_off + 17, 3))
                    out.append(("pointer", f.entry_off + 20, 2))
                    out.append(("count_field", f.entry_off + 16, 1))
                    if f.kind == "sample":
                        h = f.sectors_abs[0]
                        out += [("count_field", h + 26, 4), ("count_field", h + 30, 4), ("count_field", h + 34, 4), ("count_field", h + 38, 12)]
                    elif f.kind == "program":
                        h = f.sectors_abs[0]
                        out += [("keygroup", h + 1, 2), ("keygroup", h + 42, 1), ("keygroup", h + 150 + 1, 2), ("keygroup", h + 150 + 31, 1)]
                        # keygroup links that point back (to the first keygroup, to themselves) or nowhere
                        for kg_off in (150, 300, 450):
                            for v in (150, kg_off, 1, 72, 0xFFFF):
                                out.append(("keygroup", h + kg_off + 1, 2, v))
                        out += [("keygroup", h + 1, 2, v) for v in (0, 1, 72, 149, 151, 0x7FFF)]
                        out += [("keygroup", h + 42, 1, v) for v in (0, 255, 200)]
            for s in sorted(used) + [0, 1, 2, 3]:
                out.append(("sat_word", p.sat_off + 2 * s, 2))
            # explicit cycles / self links / merges inside and between chains, and among free sectors
            chains = [v.dir_chain for v in p.volumes] + [f.chain for v in p.volumes for f in v.files]
            for ch in chains:
                out.append(("sat_word", p.sat_off + 2 * ch[-1], 2, ch[0]))
                out.append(("sat_word", p.sat_off + 2 * ch[len(ch) // 2], 2, ch[len(ch) // 2]))
                if len(chains) > 1:
                    out.append(("sat_word", p.sat_off + 2 * ch[-1], 2, chains[(chains.index(ch) + 1) % len(chains)][0]))
            if len(p.free) >= 2:
                out.append(("sat_word", p.sat_off + 2 * p.free[0], 2, p.free[1]))
                out.append(("sat_word", p.sat_off + 2 * p.free[1], 2, p.free[0]))
    elif fmt == "roland":
        out += [("count_field", 0x100 + 20 + 2 * i, 2) for i in range(5)]          # ID-area counters
        out += [("fat_word", R.FAT_OFF, 2), ("fat_word", R.FAT_OFF + 2 * R.FAT_N - 2, 2), ("fat_word", R.FAT_OFF + 2 * R.FAT_N - 4, 2)]
        for sl in lay.samples:
            for c in sl.chain:
                out.append(("fat_word", R.FAT_OFF + 2 * c, 2))
            out += [("pointer", sl.dir_off + 28, 2), ("count_field", sl.dir_off + 30, 2), ("count_field", sl.par_off + 40, 2),
                    ("count_field", sl.par_off + 16, 4), ("count_field", sl.par_off + 24, 4), ("count_field", sl.par_off + 36, 1)]
        for c in lay.free[:4]:
            out.append(("fat_word", R.FAT_OFF + 2 * c, 2))
        for sl in lay.samples:
            ch = sl.chain
            out.append(("fat_word", R.FAT_OFF + 2 * ch[-1], 2, ch[0]))
            out.append(("fat_word", R.FAT_OFF + 2 * ch[len(ch) // 2], 2, ch[len(ch) // 2]))
        if len(lay.free) >= 2:
            # a cycle among clusters no file uses; both words are set by one fault (4 bytes when adjacent, else two faults)
            a, b = lay.free[0], lay.free[1]
            out.append(("fat_word", R.FAT_OFF + 2 * a, 2, b))
            out.append(("fat_word", R.FAT_OFF + 2 * b, 2, a))
            if len(lay.free) >= 5:
                fr = lay.free[:5]
                for x, y in zip(fr, fr[1:] + fr[:1]):
                    out.append(("fat_ring", R.FAT_OFF + 2 * x, 2, y))
        for i in range(len(m["volumes"])):
            out += [("pointer", R.VOL_PAR + R.VOL_PSZ * i + 32 + 2 * j, 2) for j in range(3)]
        for i in range(len(m["performances"])):
            out += [("pointer", R.PERF_PAR + R.PERF_PSZ * i + 256 + 2 * j, 2) for j in range(3)]
            out.append(("count_field", R.PERF_DIR + 32 * i + 16, 1))
        for i in range(len(m["patches"])):
            out += [("pointer", R.PATCH_PAR + R.PATCH_PSZ * i + 256 + 2 * j, 2) for j in range(3)]
        for i in range(len(m["partials"])):
            out += [("pointer", R.PART_PAR + R.PART_PSZ * i + 16 + 16 * j, 2) for j in range(4)]
    return out


def _fault_values(rng: random.Random, kind: str, width: int, img: bytes, off: int, sc: dict) -> bytes:
    if kind == "sat_word":
        v = rng.choice([0x0000, 0xC000, 0x4000, 0x8000, rng.randint(1, 40), (off % 64) // 2, 11385, 11386, 0xFFFF, 0x3FFF])
        return struct.pack("<H", v)
    if kind == "fat_word":
        v = rng.choice([0x0000, 0x0001, 0xFFF7, 0xFFF8, 0xFFFF, 0xFFFA, 0xFFFE, rng.randint(2, 30), 65527, 65533, 2])
        return struct.pack("<H", v)
    if kind == "pointer":
        v = rng.choice([0, 1, 2, 3, 0xFFFF, 0x7FFF, 0x8000, rng.randint(0, 64), rng.randint(0, 0xFFFF)])
        return struct.pack("<H", v)[:width]
    top = (1 << (8 * width)) - 1
    if kind == "size_field" and rng.random() < 0.35:
        return (rng.choice([0, 0, 1, 2, 3])).to_bytes(width, "little")      # sizes that no longer cover the structure itself
    v = rng.choice([0, 1, top, top - 1, top // 2, top // 2 + 1, 255, 256, rng.randint(0, top)]) & top
    return v.to_bytes(width, "little")


def _cue_faults(rng: random.Random, text: str) -> str:
    lines = text.split("\n")
    for _ in range(rng.randint(1, 3)):
        k = weighted(rng, [("drop", 3), ("dup", 2), ("huge", 3), ("nofile", 1), ("garbage", 2), ("mode", 2), ("binary", 1), ("many", 1), ("blank", 4), ("longfile", 2), ("longtitle", 3), ("dotdot", 2)])
        i = rng.randrange(len(lines)) if lines else 0
        if k == "drop" and lines:
            del lines[i]
        elif k == "dup" and lines:
            lines.insert(i, lines[i])
        elif k == "huge":
            big = "9" * rng.choice([10, 100, 5000, 1000000])
            lines.insert(i, "    INDEX 01 %s:%s:%s" % (big, rng.choice(["00", big]), "00"))
        elif k == "nofile":
            lines = [l for l in lines if not l.strip().upper().startswith("FILE")]
        elif k == "garbage":
            lines.insert(i, "".join(chr(rng.randint(32, 126)) for _ in range(rng.randint(1, 200))))
        elif k == "mode" and lines:
            lines = [l.replace("AUDIO", rng.choice(["MODE1/2352", "MODE1/2048", "MODE2/2336", "CDG", ""])) if "TRACK" in l and rng.random() < 0.5 else l for l in lines]
        elif k == "blank":
            where = rng.choice(["end", "end", "start", "middle", "everywhere"])
            blank = rng.choice(["", "   ", "\t", " \t "])
            if where == "end":
                lines += [blank] * rng.randint(1, 3)
            elif where == "start":
                lines = [blank] * rng.randint(1, 3) + lines
            elif where == "middle":
                lines.insert(i, blank)
            else:
                lines = [x for l in lines for x in (l, blank)]
        elif k == "longfile":
            nm = "".join(rng.choice("abcdefghijklmnopqrstuvwxyz0123456789_-") for _ in range(rng.randint(24, 31)))
            tail = rng.choice(["WAVE", "BINARX", "MP3", "", "BINAR"])
            lines = [('FILE "%s.bin" %s' % (nm, tail)) if l.strip().upper().startswith("FILE") else l for l in lines]
        elif k == "longtitle":
            # a TITLE that is mostly one repeated separator character: name sanitising must stay proportional to its length
            run = rng.choice([" ", " ", " ", " ", ".", "-", "- ", " .", "_"]) * rng.choice([300, 3000, 4000])
            title = '    TITLE "%s%s%s"' % (rng.choice(["a", "a", "Kick"]), run, rng.choice(["b", "b", "L", ".", "x."]))
            tl = [j for j, l in enumerate(lines) if l.strip().upper().startswith("TITLE")]
            tr = [j for j, l in enumerate(lines) if l.strip().upper().startswith("TRACK")]
            if tl and rng.random() < 0.6:
                lines[rng.choice(tl)] = title
            elif tr:
                lines.insert(rng.choice(tr) + 1, title)
            else:
                lines.insert(i, title)
        elif k == "dotdot":
            # FILE names with parent-directory components, back slashes or an absolute path
            nm = rng.choice(["../d.bin", "../../d.bin", "a/../../x.bin", "..", "../", "./../d.bin", "..\\d.bin", "/d.bin", "a/../d.bin", "a/./b/../../d.bin"])
            lines = [('FILE "%s" BINARY' % nm) if l.strip().upper().startswith("FILE") else l for l in lines]
        elif k == "binary":
            lines.insert(i, "\x00\x01\x02")
        elif k == "many":
            lines += ["  TRACK %02d AUDIO" % (j % 100) for j in range(3000)]
    return "\n".join(lines)


def gen(rng: random.Random, tier: str, index: int) -> dict:
    r = rng.random()
    if r < 0.22:
        sc = _rand_bytes_scenario(rng)
        sc["cli"] = index % CLI_EVERY == 2
        return sc
    fmt = weighted(rng, [("akai", 6), ("roland", 2), ("cdda", 2)])
    if fmt == "akai":
        model = gen_akai(rng, max_parts=2, max_vols=3, max_files=4, big=False, programs=True)
        if rng.random() < 0.12:
            # make sure some disks carry a multi-sector stereo pair whose sectors interleave
            from ..gen_akai import gen_sample
            n = rng.randint(9000, 15000)
            vol = {"name": "PAIRS", "vtype": 3, "dir": {"mode": "chain", "policy": "contiguous", "seed": 0}, "files": []}
            for side in "LR":
                f = gen_sample(rng, "WIDE -" + side, "c13p%d%s" % (rng.getrandbits(20), side), n=n, markers=False, rich_header=False)
                f["policy"], f["pair"], f["rate"] = "random", ["WIDE", side], 44100
                vol["files"].append(f)
            model["partitions"][0]["volumes"].append(vol)
            model["partitions"][0]["spare"] = max(model["partitions"][0].get("spare", 0), 6)
            try:
                A.build(model)
            except ScenarioInvalid:
                model["partitions"][0]["volumes"].pop()
    elif fmt == "roland":
        model = gen_roland(rng, max_samples=4, max_perf=2, max_vols=2, max_clusters=rng.choice([2, 2, 5]))
    else:
        model = gen_cdda_model(rng)
    sc = {"fmt": fmt, "model": model, "container": "raw", "faults": [], "cli": index % CLI_EVERY == 2}
    if fmt == "akai" and rng.random() < 0.15:
        sc["container"] = "s2352"
    if fmt == "cdda":
        sc["cue"] = _cue_faults(rng, C.cue_text(model))
        if rng.random() < 0.3:
            sc["faults"].append(["cut", rng.randrange(0, model["bin_len"] + 1)])
        return sc
    img, lay = (A.build(model) if fmt == "akai" else R.build(model))
    tg = _targets(sc, img, lay)
    if fmt == "akai" and rng.random() < 0.5:
        # a program whose keygroup chain links back on itself (the number of keygroups bounds the walk)
        progs = [(pl, vl, fl) for pl, vl, fl in lay.files() if fl.kind == "program"]
        if progs:
            pl, vl, fl = rng.choice(progs)
            kgs = model["partitions"][pl.idx]["volumes"][vl.idx]["files"][fl.idx].get("kgs", [])
            if len(kgs) >= 2:
                h = fl.sectors_abs[0]
                sc["faults"].append(["rot", "keygroup", h + 150 + 1, list(struct.pack("<H", rng.choice([150, 150, 151, 1])))])
                if rng.random() < 0.5:
                    sc["faults"].append(["rot", "keygroup", h + 42, [rng.choice([255, 200, 99])]])
    for _ in range(weighted(rng, [(1, 4), (2, 3), (3, 2), (4, 1)])):
        k = weighted(rng, [("target", 7), ("uniform", 2), ("cut", 2.5), ("eio", 1)])
        if k == "target" and tg:
            # pick the kind of field first, then a field of that kind: rare but critical fields (a partition's size word,
            # the FAT id, ID-area counters) are then hit as often as the many per-file fields
            kinds_present = sorted({x[0] + (":p" if (x[0] == "size_field" and x[2] == 2) else "") for x in tg})
            kk = rng.choice(kinds_present)
            pool = [x for x in tg if x[0] + (":p" if (x[0] == "size_field" and x[2] == 2) else "") == kk]
            t = rng.choice(pool)
            kind, off, width = t[0], t[1], t[2]
            if kind == "fat_ring":
                # a cycle of five unused clusters: all five words
                for tt in tg:
                    if tt[0] == "fat_ring":
                        sc["faults"].append(["rot", "fat_word", tt[1], list(struct.pack("<H", tt[3]))])
            elif len(t) > 3 and kind == "keygroup":
                sc["faults"].append(["rot", kind, off, list(int(t[3]).to_bytes(width, "little"))])
                if width == 2 and rng.random() < 0.5:
                    # many keygroups announced, so that a cyclic link is actually followed
                    hdr = off - ((off - lay.partitions[0].base) % A.SECTOR) if False else None
            elif len(t) > 3:
                sc["faults"].append(["rot", kind, off, list(struct.pack("<H", t[3]))])
                # complete a two-element cycle now and then
                mate = [tt for tt in tg if len(tt) > 3 and tt[0] == kind and tt is not t and tt[3] * 2 == (off - (lay.partitions[0].sat_off if fmt == "akai" else R.FAT_OFF))]
                if mate and rng.random() < 0.7:
                    sc["faults"].append(["rot", kind, mate[0][1], list(struct.pack("<H", mate[0][3]))])
            else:
                sc["faults"].append(["rot", kind, off, list(_fault_values(rng, kind, width, img, off, sc))])
        elif k == "uniform":
            region = rng.choice([A.HDR_TOTAL, len(img)]) if fmt == "akai" else rng.choice([0x200, R.DATA_FAT_OFF, len(img)])
            offs = [rng.randrange(region) for _ in range(rng.randint(1, 8))]
            for o in offs:
                sc["faults"].append(["rot", "uniform_rot", o, [rng.getrandbits(8)]])
        elif k == "cut":
            spots = []
            if fmt == "akai":
                spots = [a for _, _, f in lay.files() for a in f.sectors_abs]
            elif fmt == "roland":
                spots = [a for sl in lay.samples for a in sl.clusters_abs]
            pair_cut = None
            if fmt == "akai":
                # both halves of a stereo pair lose their tail while their headers stay readable
                for pl in lay.partitions:
                    for vl in pl.volumes:
                        vm = model["partitions"][pl.idx]["volumes"][vl.idx]
                        halves = [fl for fl in vl.files if vm["files"][fl.idx].get("pair") and len(fl.sectors_abs) >= 2]
                        for a in halves:
                            for b in halves:
                                if a is not b and vm["files"][a.idx]["pair"][0] == vm["files"][b.idx]["pair"][0]:
                                    lo = max(a.sectors_abs[0], b.sectors_abs[0], max(vl.dir_abs)) + A.SECTOR
                                    hi = min(max(a.sectors_abs), max(b.sectors_abs))
                                    if lo <= hi:
                                        pair_cut = rng.choice([lo, hi, hi + 1, (lo + hi) // 2])
            if pair_cut is not None and rng.random() < 0.8:
                sc["faults"].append(["cut", pair_cut])
            elif spots and rng.random() < 0.7:
                # the medium ends inside the sample data: listings still work, the export runs into unreadable sectors
                sc["faults"].append(["cut", rng.choice(spots) + rng.choice([0, 1, 2, 4096, 8191])])
            else:
                sc["faults"].append(["cut", rng.randrange(0, len(img) + 1)])
        else:
            sc["faults"].append(["eio", rng.randint(1, 3000)])
    return sc


# --------------------------------------------------------------------------
# child
# --------------------------------------------------------------------------

def _hwm_kb() -> int:
    try:
        with open("/proc/self/status") as fh:
            for line in fh:
                if line.startswith("VmHWM:"):
                    return int(line.split()[1])
    except OSError:
        pass
    return resource.getrusage(resource.RUSAGE_SELF).ru_maxrss


def _reset_hwm() -> None:
    try:
        with open("/proc/self/clear_refs", "w") as fh:
            fh.write("5")
    except OSError:
        pass


def _materialise(sc: dict):
    """Returns (clean files dict or None, faulted files dict, entry name, sim kwargs, fault kinds, logical size)."""
    fmt = sc["fmt"]
    if fmt == "bytes":
        data = _bytes_of(sc)
        return None, {"/vfs/img": data}, "/vfs/img", {}, ["random_bytes"], len(data)
    m = sc["model"]
    kinds = []
    if fmt == "cdda":
        data = C.bin_bytes(m)
        clean = {"/vfs/d.cue": C.cue_text(m).encode(), "/vfs/" + m["bin_name"]: data}
        try:
            cue = sc.get("cue", C.cue_text(m)).encode("ascii", "replace")
        except Exception:      # noqa: BLE001
            raise ScenarioInvalid("cue")
        kinds.append("cue_line")
        faulted = {"/vfs/d.cue": cue, "/vfs/" + m["bin_name"]: data}
        kw = {}
        for f in sc.get("faults", []):
            if f[0] == "cut":
                kw["cut"] = f[1]
                kinds.append("cut")
        return clean, faulted, "/vfs/d.cue", {"/vfs/" + m["bin_name"]: kw}, kinds, len(data)
    raw, lay = (A.build(m) if fmt == "akai" else R.build(m))
    b = bytearray(raw)
    rot_offsets = []
    kw: Dict[str, object] = {}
    for f in sc.get("faults", []):
        if f[0] == "rot":
            _, kind, off, vals = f
            for j, v in enumerate(vals):
                if 0 <= off + j < len(b):
                    if b[off + j] != v & 0xFF:
                        rot_offsets.append(off + j)
                    b[off + j] = v & 0xFF
            kinds.append(kind)
        elif f[0] == "cut":
            kw["cut"] = f[1]
            kinds.append("cut")
        elif f[0] == "eio":
            kw["eio_at"] = f[1]
            kinds.append("eio")
    clean_dev, fault_dev = raw, bytes(b)
    if sc.get("container") == "s2352":
        clean_dev, fault_dev = K.to_2352(raw), K.to_2352(bytes(b))
        rot_offsets = [(o // 2048) * 2352 + 16 + o % 2048 for o in rot_offsets]
        if "cut" in kw:
            kw["cut"] = (kw["cut"] // 2048) * 2352 + 16 + kw["cut"] % 2048
    kw["_rot_offsets"] = rot_offsets
    return {"/vfs/img": clean_dev}, {"/vfs/img": fault_dev}, "/vfs/img", {"/vfs/img": kw}, kinds, len(fault_dev)


def _ops_for(sc: dict) -> List[list]:
    if sc["fmt"] == "bytes":
        return [["ls", ""], ["ls", "A"], ["ls", "A/X/Y"], ["export"]]
    if sc["fmt"] == "cdda":
        return [["ls", ""]] + [["ls", t] for t, _ in C.expected_tracks(sc["model"])[:3]] + [["export"]]
    paths = [p for p in model_paths(sc) if p != "no such/entry"][:10]
    return [["ls", p] for p in paths] + [["export"]]


def _run_ops(files, entry, simkw, ops, budgets, sb, tag):
    """Open + ops; returns list of (op, outcome, steps) and the SimFiles."""
    vfs = VirtualFS(files)
    rot_offsets = {}
    for p, kw in simkw.items():
        kw = dict(kw)
        ro = kw.pop("_rot_offsets", None)
        vfs.faults[p] = kw
        if ro:
            rot_offsets[p] = ro
    out = []
    with vfs.installed():
        with StepClock(budgets[0]) as clk:
            if entry.endswith(".cue"):
                image, r0 = tool.open_image(entry)
            else:
                sf = vfs.open(entry, "rb")
                if rot_offsets.get(entry):
                    sf._rot_offsets = sorted(rot_offsets[entry])
                image, r0 = tool.open_image(sf)
        out.append(("open", "budget" if r0.budget else (r0.exc or "ok"), clk.steps))
        if image is not None:
            for i, op in enumerate(ops):
                with StepClock(budgets[i + 1]) as clk:
                    if op[0] == "ls":
                        r = tool.run_ls(image, op[1])
                    else:
                        r = tool.run_export(image, sb, "%s%d" % (tag, i))
                out.append((op[0] + ":" + (op[1] if len(op) > 1 else ""), "budget" if r.budget else (r.exc or "ok"), clk.steps))
                if r.budget:
                    break
    return out, list(vfs.simfiles.values())


def _child(sc: dict, wfd: int) -> None:
    resource.setrlimit(resource.RLIMIT_CPU, (CPU_LIMIT_S, CPU_LIMIT_S + 5))
    try:
        resource.setrlimit(resource.RLIMIT_AS, (8 << 30, 8 << 30))
    except (ValueError, OSError):
        pass
    report = {"ok": False}
    try:
        clean, faulted, entry, simkw, kinds, size = _materialise(sc)
        ops = _ops_for(sc)
        BIG = 4_000_000_000
        s0 = [0] * (len(ops) + 1)
        with Sandbox("c13") as sb:
            if clean is not None:
                res0, _ = _run_ops(clean, entry, {}, ops, [BIG] * (len(ops) + 1), sb, "c")
                for i, (_, outc, st) in enumerate(res0):
                    s0[i] = st
                report["clean"] = [(a, b) for a, b, _ in res0]
            _reset_hwm()
            hwm0 = _hwm_kb()
            budgets = [5_000_000 + 50 * s + 40 * size for s in s0]
            t0 = time.process_time()
            res1, sfs = _run_ops(faulted, entry, simkw, ops, budgets, sb, "f")
            cpu = time.process_time() - t0
            hwm1 = _hwm_kb()
        report.update(ok=True, kinds=kinds, size=size, ops=[(a, b, st) for a, b, st in res1], budgets=budgets, s0=s0,
                      hwm0_kb=hwm0, hwm1_kb=hwm1, cpu=round(cpu, 3),
                      rot_hit=sum(s.rot_hit for s in sfs), cut_hit=sum(s.cut_hit for s in sfs), eio=sum(s.eio_fired for s in sfs),
                      io=sum(s.io_events for s in sfs), events=[s.event_digest() for s in sfs],
                      input_digest=digest_of(sorted((k, digest_of(v if isinstance(v, bytes) else b"")) for k, v in faulted.items()), simkw_digest(simkw)))
    except ScenarioInvalid as e:
        report = {"ok": False, "invalid": str(e)}
    except MemoryError:
        report = {"ok": False, "memory_error": True}
    except BaseException as e:      # noqa: BLE001
        import traceback
        report = {"ok": False, "harness": traceback.format_exc()[-1500:]}
    data = json.dumps(report).encode()
    os.write(wfd, struct.pack("<I", len(data)) + data)


def simkw_digest(simkw) -> str:
    return digest_of(sorted((k, sorted((a, b) for a, b in v.items() if a != "_rot_offsets")) for k, v in simkw.items()))


def _read_all(fd: int, timeout: float) -> Optional[bytes]:
    buf = b""
    deadline = time.monotonic() + timeout
    while True:
        left = deadline - time.monotonic()
        if left <= 0:
            return None
        r, _, _ = select.select([fd], [], [], min(left, 1.0))
        if not r:
            continue
        chunk = os.read(fd, 1 << 16)
        if not chunk:
            return buf
        buf += chunk
        if len(buf) >= 4 and len(buf) >= 4 + struct.unpack("<I", buf[:4])[0]:
            return buf


def run(sc: dict) -> RunResult:
    res = RunResult()
    rfd, wfd = os.pipe()
    pid = os.fork()
    if pid == 0:
        try:
            os.close(rfd)
            _child(sc, wfd)
        finally:
            os._exit(0)
    os.close(wfd)
    raw = _read_all(rfd, CPU_LIMIT_S + 60)
    os.close(rfd)
    if raw is None:
        try:
            os.kill(pid, signal.SIGKILL)
        except OSError:
            pass
    _, status = os.waitpid(pid, 0)
    fmt = sc["fmt"]
    res.probes["random_bytes" if fmt == "bytes" else fmt] += 1
    if raw is None or len(raw) < 4:
        sig = os.WTERMSIG(status) if os.WIFSIGNALED(status) else 0
        cls = "cpu_backstop" if (raw is None or sig in (signal.SIGXCPU, signal.SIGKILL)) else "child_died"
        res.add(PROP, cls, "the forked child produced no result (signal %d): CPU/wall backstop or crash" % sig, fmt=fmt)
        res.digest = digest_of(cls)
        res.state_hash = jhash(sc)
        return res
    rep = json.loads(raw[4:4 + struct.unpack("<I", raw[:4])[0]])
    if not rep.get("ok"):
        if rep.get("invalid"):
            raise ScenarioInvalid(rep["invalid"])
        if rep.get("memory_error"):
            res.add(PROP, "rss", "MemoryError under the address-space limit", fmt=fmt)
            res.digest = digest_of("memory_error")
            return res
        raise RuntimeError("child harness error:\n" + rep.get("harness", "?"))
    for k in rep["kinds"]:
        key = {"sat_word": "fault_sat_word", "fat_word": "fault_fat_word", "count_field": "fault_count_field", "pointer": "fault_pointer",
               "size_field": "fault_size_field", "keygroup": "fault_keygroup", "cue_line": "fault_cue_line", "uniform_rot": "fault_uniform_rot",
               "cut": "fault_cut", "eio": "fault_eio"}.get(k)
        if key:
            res.probes[key] += 1
    if any(len(l) > 280 and l.strip().upper().startswith("TITLE") for l in sc.get("cue", "").split("\n")):
        res.probes["cue_long_title"] += 1
    if rep["rot_hit"]:
        res.probes["rot_read"] += 1
        res.faults["rot"] += 1
    if rep["cut_hit"]:
        res.faults["cut"] += 1
    if rep["eio"]:
        res.faults["eio"] += 1
    for (name, outcome, st), b in zip(rep["ops"], rep["budgets"]):
        res.steps += st
        if outcome == "budget":
            res.add(PROP, "step_budget", "%s did not finish within %d steps (clean arm: %s steps); faults %s" % (
                name, b, rep["s0"][:len(rep["ops"])], _fault_desc(sc)), fmt=fmt, op=name.split(":")[0])
        elif outcome == "ok":
            res.probes["ended_ok"] += 1
        else:
            res.probes["ended_with_error"] += 1
            res.probes["exc_" + outcome] += 1
    bound_kb = rep["hwm0_kb"] + 64 * 1024 + 24 * rep["size"] // 1024
    if rep["hwm1_kb"] > bound_kb:
        res.add(PROP, "rss", "resident set grew from %d KiB to %d KiB on an input of %d bytes (bound %d KiB); faults %s" % (
            rep["hwm0_kb"], rep["hwm1_kb"], rep["size"], bound_kb, _fault_desc(sc)), fmt=fmt)
    res.io_events = rep["io"]
    # cross-check: the in-process verdict is the process's verdict
    if sc.get("cli") and not res.violations:
        res.probes["cli_crosscheck"] += 1
        v = _cli_check(sc)
        if v:
            res.add(PROP, "cli_backstop", v, fmt=fmt)
    res.digest = digest_of(rep["events"], [(a, b) for a, b, _ in rep["ops"]], [v.cls for v in res.violations])
    res.state_hash = jhash([rep["input_digest"], [o[0] for o in rep["ops"]]])
    res.nontrivial = bool(rep["rot_hit"] or rep["cut_hit"] or rep["eio"] or fmt in ("bytes", "cdda"))
    res.sample = {"fmt": fmt, "faults": _fault_desc(sc), "size": rep["size"], "outcomes": [(a, b) for a, b, _ in rep["ops"]][:8]}
    return res


def _fault_desc(sc: dict):
    if sc["fmt"] == "bytes":
        return [sc["style"], sc["n"]]
    if sc["fmt"] == "cdda":
        return ["cue", sc.get("cue", "")[:300]] + sc.get("faults", [])
    return sc.get("faults", [])[:8]


def _cli_check(sc: dict) -> Optional[str]:
    """Real CLI, real files, RLIMIT_CPU/RLIMIT_AS: must end (any exit status) within the limits."""
    import shutil
    import subprocess
    import sys
    import tempfile
    clean, faulted, entry, simkw, kinds, size = _materialise(sc)
    d = tempfile.mkdtemp(prefix="c13cli-", dir="/dev/shm" if os.path.isdir("/dev/shm") else None)
    try:
        for p, data in faulted.items():
            kw = {k: v for k, v in simkw.get(p, {}).items() if k == "cut"} if simkw else {}
            if "cut" in kw:
                data = data[:kw["cut"]]
            with open(os.path.join(d, os.path.basename(p)), "wb") as fh:
                fh.write(data)
        repo = os.environ.get("VERIF_REPO", "/repo")
        env = dict(os.environ, PYTHONPATH=repo, PYTHONDONTWRITEBYTECODE="1")

        def limits():
            resource.setrlimit(resource.RLIMIT_CPU, (60, 65))
            resource.setrlimit(resource.RLIMIT_AS, (8 << 30, 8 << 30))
        for argv in (["ls", os.path.basename(entry)], ["export", os.path.basename(entry), "-d", "out"]):
            try:
                p = subprocess.run([sys.executable, "-B", "-m", "smpl_extract"] + argv, cwd=d, env=env, capture_output=True, timeout=150, preexec_fn=limits)
            except subprocess.TimeoutExpired:
                return "real CLI '%s' did not finish within 150 s" % argv[0]
            if p.returncode < 0:
                return "real CLI '%s' was killed by signal %d (CPU limit 60 s / AS limit 8 GiB)" % (argv[0], -p.returncode)
        return None
    finally:
        shutil.rmtree(d, ignore_errors=True)
