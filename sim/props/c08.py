"""C08 - byte-window views behave as read-only files under any seek/read history.

System: a stack of the tool's real view classes over a SimFile base whose bytes
outside every window are poison.  Workload: a seeded history of seek/tell/read
operations.  Oracle: a ``bytes`` + cursor reference model compared after every
operation (refinement, operation by operation).
"""
from __future__ import annotations

import random
from typing import List, Tuple

from ..core import RunResult, ScenarioInvalid, digest_of, jhash, pcm_bytes, weighted
from ..seams import SimFile, StepClock

PROP = "C08"
LEVEL = "exploration"
RUNS = {"quick": 12000, "thorough": 400000}
TIME_CAP = {"quick": 240, "thorough": 900}
RULE = ("seeded view stacks (depth 1-4 of offset/wrapper/sector/file-chain/mdf/reversed layers over a SimFile) x seeded "
        "seek/tell/read histories of 1-120 ops, plus an enumerated block of all op sequences up to length 4 (quick: 3) over "
        "an alphabet of 10 ops on 6 tiny fixed stacks; a case is non-trivial when its history contains a read that crosses a "
        "sector/window boundary, hits the logical end, or is rejected by a reversed view; distinct = hash(stack shape, op "
        "kinds with boundary classes)")
STATE_MEASURE = "distinct (view-stack shape, op kind + boundary class sequence) hashes"
COMPONENTS = {"real": ["smpl_extract.util.stream.StreamWrapper/StreamOffset/StreamReversed", "smpl_extract.util.sector.SectorStream",
                       "smpl_extract.util.fat.FileStream", "smpl_extract.alcohol.mdf.MdfStream", "numpy"],
              "stub": ["base file object: SimFile instead of io.BufferedReader"]}
ASSUMPTIONS = ["windows are non-empty and lie inside their substream (the statement's precondition)",
               "layers above a reversed view use offsets/sizes/sector lengths that are multiples of the sample width",
               "no short reads from the base file (regular-file semantics)"]
EXPECTED_PROBES = ["read_at_end", "read_zero_at_end", "read_spans_2plus_boundaries", "seek_clamped", "rev_rejected",
                   "depth_ge_3", "mdf_layer", "file_layer", "reseek_needed"]
SHRINK = {"max_attempts": 600, "max_seconds": 40.0}

RUN_CPU_CAP_S = 10           # a C08 run takes milliseconds; a view whose read never returns is cut off here (class no_result)
TINY_ALPHABET = [("seek", 0, 0), ("seek", 1, 1), ("seek", -1, 2), ("seek", 99, 0), ("seek", -1, 1),
                 ("tell",), ("read", 0), ("read", 1), ("read", 3), ("read", 99)]
TINY_STACKS = [
    [{"k": "file", "L": 2, "list": [2, 0, 3]}],
    [{"k": "off", "size": 5, "off": 2}],
    [{"k": "file", "L": 2, "list": [3, 1]}, {"k": "off", "size": 3, "off": 1}],
    [{"k": "sector", "size": 5, "L": 2}],
    [{"k": "off", "size": 6, "off": 1}, {"k": "rev", "w": 1, "size": 6, "off": 0}],
    [{"k": "wrap", "size": 4}, {"k": "file", "L": 1, "list": [3, 0, 2]}],
]


def _exh_lengths(tier: str) -> int:
    return 3 if tier == "quick" else 4


def _exh_count(tier: str) -> int:
    k = len(TINY_ALPHABET)
    per_stack = sum(k ** n for n in range(1, _exh_lengths(tier) + 1))
    return per_stack * len(TINY_STACKS)


def _exh_scenario(tier: str, index: int) -> dict:
    k = len(TINY_ALPHABET)
    per_stack = sum(k ** n for n in range(1, _exh_lengths(tier) + 1))
    si, r = divmod(index, per_stack)
    n = 1
    while r >= k ** n:
        r -= k ** n
        n += 1
    ops = []
    for _ in range(n):
        r, d = divmod(r, k)
        ops.append(list(TINY_ALPHABET[d]))
    return {"base_n": 9, "base_key": "tiny", "layers": TINY_STACKS[si], "ops": ops, "enumerated": True}


# --------------------------------------------------------------------------
# building the real stack and the reference content
# --------------------------------------------------------------------------

def _mdf_base(key: str, nsec: int, extra: int) -> bytes:
    body = pcm_bytes(key, nsec * 1024)
    out = bytearray()
    for i in range(nsec):
        out += b"\x00" + b"\xFF" * 10 + b"\x00" + bytes([0, 2, i & 0xFF]) + b"\x01"
        out += body[i * 2048:(i + 1) * 2048]
        out += bytes([0xCC]) * 288
    out += bytes([0xCC]) * extra
    return bytes(out)


class _NoView:
    """Stand-in used when only the reference content is wanted (scenario generation never runs tool code)."""
    def __init__(self, *a, **k):
        pass


def materialise(sc: dict, model_only: bool = False):
    """Returns (top view, logical bytes, SimFile, W) or raises ScenarioInvalid."""
    if model_only:
        StreamOffset = StreamWrapper = StreamReversed = SectorStream = FileStream = MdfStream = _NoView
    else:
        from smpl_extract.util.stream import StreamOffset, StreamWrapper, StreamReversed
        from smpl_extract.util.sector import SectorStream
        from smpl_extract.util.fat import FileStream
        from smpl_extract.alcohol.mdf import MdfStream

    layers = sc["layers"]
    if not layers:
        raise ScenarioInvalid("no layers")
    if layers[0]["k"] == "mdf":
        base = _mdf_base(sc["base_key"], layers[0]["nsec"], layers[0].get("extra", 0))
    else:
        n = sc["base_n"]
        if n < 1:
            raise ScenarioInvalid("empty base")
        base = pcm_bytes(sc["base_key"], (n + 1) // 2)[:n]
    sf = SimFile(base)
    view, logical = sf, base
    W = 1
    seen_rev = False
    for li, ly in enumerate(layers):
        k = ly["k"]
        L = len(logical)
        if k == "mdf":
            if li != 0:
                raise ScenarioInvalid("mdf only on the base")
            view = MdfStream(view)
            nsec = L // 2352
            logical = b"".join(logical[i * 2352 + 16:i * 2352 + 16 + 2048] for i in range(nsec))
        elif k == "off":
            size, off = ly["size"], ly["off"]
            if size < 1 or off < 0 or off + size > L or (seen_rev and (size % W or off % W)):
                raise ScenarioInvalid("bad off")
            view = StreamOffset(view, size, off)
            logical = logical[off:off + size]
        elif k == "wrap":
            size = ly["size"]
            if size < 1 or size > L or (seen_rev and size % W):
                raise ScenarioInvalid("bad wrap")
            view = StreamWrapper(view, size)
            logical = logical[:size]
        elif k == "sector":
            size, sl = ly["size"], ly["L"]
            if size < 1 or size > L or sl < 1 or (seen_rev and (size % W or sl % W)):
                raise ScenarioInvalid("bad sector")
            view = SectorStream(view, size, sl)
            logical = logical[:size]
        elif k == "file":
            sl, lst = ly["L"], ly["list"]
            if sl < 1 or not lst or len(set(lst)) != len(lst) or (seen_rev and sl % W):
                raise ScenarioInvalid("bad file")
            if any(s < 0 or (s + 1) * sl > L for s in lst):
                raise ScenarioInvalid("sector outside substream")
            view = FileStream(view, sl, list(lst))
            logical = b"".join(logical[s * sl:(s + 1) * sl] for s in lst)
        elif k == "rev":
            w, size, off = ly["w"], ly["size"], ly.get("off", 0)
            if w not in (1, 2, 4) or size < w or size % w or off < 0 or off + size > L:
                raise ScenarioInvalid("bad rev")
            if seen_rev and (w != W or off % W):
                raise ScenarioInvalid("mixed widths")
            if not seen_rev:
                W = w
            seen_rev = True
            # exactly how the tool builds it: reversed over an offset window
            view = StreamReversed(StreamOffset(view, size, off), size, sample_width=w)
            x = logical[off:off + size]
            logical = b"".join(x[i:i + w] for i in range(size - w, -1, -w))
        else:
            raise ScenarioInvalid("unknown layer %r" % k)
    if len(logical) < 1:
        raise ScenarioInvalid("empty view")
    return view, logical, sf, (W if seen_rev else 1)


# --------------------------------------------------------------------------
# generator
# --------------------------------------------------------------------------

def _gen_layers(rng: random.Random) -> Tuple[int, List[dict]]:
    depth = weighted(rng, [(1, 3), (2, 3), (3, 2), (4, 2)])
    layers: List[dict] = []
    W = 1
    seen_rev = False
    real_geom = rng.random() < 0.15
    if rng.random() < 0.12:
        nsec = rng.randint(1, 4)
        layers.append({"k": "mdf", "nsec": nsec, "extra": rng.choice([0, 0, 1, 100, 2351])})
        L = nsec * 2048
        base_n = 0
    else:
        base_n = rng.randint(8, 400) if not real_geom else rng.randint(9216 * 2, 9216 * 4)
        L = base_n
    tries = 0
    while len(layers) < depth and tries < 20:
        tries += 1
        kind = weighted(rng, [("off", 3), ("wrap", 1), ("sector", 1), ("file", 4), ("rev", 2)])
        unit = W if seen_rev else 1
        if kind == "off":
            if L < 2 * unit:
                continue
            off = rng.randrange(0, L // unit) * unit
            maxsz = (L - off) // unit
            if maxsz < 1:
                continue
            size = rng.randint(1, maxsz) * unit
            layers.append({"k": "off", "size": size, "off": off})
            L = size
        elif kind == "wrap":
            size = rng.randint(1, L // unit) * unit
            layers.append({"k": "wrap", "size": size})
            L = size
        elif kind == "sector":
            sl = rng.choice([1, 2, 3, 4, 7, 8, 16, 64]) * unit
            size = rng.randint(1, L // unit) * unit
            layers.append({"k": "sector", "size": size, "L": sl})
            L = size
        elif kind == "file":
            if real_geom and L >= 8192:
                sl = rng.choice([2048, 8192, 9216])
            else:
                sl = rng.choice([1, 2, 3, 4, 5, 8, 16, 64]) * unit
            ns = L // sl
            if ns < 1:
                continue
            k = rng.randint(1, min(ns, 12))
            lst = rng.sample(range(ns), k)
            layers.append({"k": "file", "L": sl, "list": lst})
            L = sl * k
        elif kind == "rev":
            w = W if seen_rev else rng.choice([1, 2, 2, 4])
            if L < w:
                continue
            off = (rng.randrange(0, L // w) * w) if rng.random() < 0.5 else 0
            maxn = (L - off) // w
            if maxn < 1:
                continue
            size = rng.randint(1, maxn) * w
            layers.append({"k": "rev", "w": w, "size": size, "off": off})
            W, seen_rev, L = w, True, size
    if not layers:
        layers.append({"k": "wrap", "size": L})
    return base_n, layers


def _boundaries(layers: List[dict], L: int) -> List[int]:
    top = layers[-1]
    bs = {0, L}
    sl = top.get("L")
    if top["k"] == "mdf":
        sl = 2048
    if sl:
        bs.update(range(0, L + 1, sl))
    return sorted(bs)


def gen(rng: random.Random, tier: str, index: int) -> dict:
    if index < _exh_count(tier):
        return _exh_scenario(tier, index)
    for _ in range(50):
        base_n, layers = _gen_layers(rng)
        sc = {"base_n": base_n, "base_key": "b%d" % rng.getrandbits(32), "layers": layers, "ops": []}
        try:
            _v, logical, _sf, W = materialise(sc, model_only=True)
        except ScenarioInvalid:
            continue
        break
    else:
        raise ScenarioInvalid("could not build a stack")
    L = len(logical)
    bs = _boundaries(layers, L)
    pos = 0
    n_ops = weighted(rng, [(rng.randint(1, 8), 3), (rng.randint(8, 40), 4), (rng.randint(40, 120), 2)])
    ops = []
    unaligned_p = 0.06 if W > 1 else 0.0
    for _ in range(n_ops):
        kind = weighted(rng, [("read", 5), ("seek", 3), ("tell", 1)])
        if kind == "tell":
            ops.append(["tell"])
            continue
        if kind == "seek":
            wh = rng.choice([0, 0, 1, 2])
            b = rng.choice(bs)
            targets = [0, L, b, b - 1, b + 1, L + 3, -1, -L - 2, rng.randint(0, L), L - 1, L - W]
            t = rng.choice(targets)
            if W > 1 and rng.random() >= unaligned_p:
                t = (t // W) * W
            base = {0: 0, 1: pos, 2: L}[wh]
            off = t - base
            ops.append(["seek", off, wh])
            newp = min(max(t, 0), L)
            if newp % W == 0:
                pos = newp
            continue
        rem = L - pos
        nb = [b for b in bs if b > pos]
        cands = [0, 1, W, 2 * W, rem, rem + 1, rem + W, max(0, rem - W), 10 ** 6, rng.randint(0, max(1, rem)),
                 rng.randint(0, L + 5)]
        if nb:
            cands += [nb[0] - pos, nb[0] - pos + W, nb[0] - pos - W]
            if len(nb) > 2:
                j = rng.randrange(1, len(nb))
                cands += [nb[j] - pos, nb[j] - pos + 1]
        n = max(0, rng.choice(cands))
        if rng.random() < 0.02:
            n = -1
        elif W > 1 and rng.random() >= unaligned_p:
            n = (n // W) * W
        ops.append(["read", n])
        nn = rem if n < 0 else min(rem, n)
        if nn % W == 0:
            pos += nn
    sc["ops"] = ops
    return sc


# --------------------------------------------------------------------------
# run + oracle
# --------------------------------------------------------------------------

def run(sc: dict) -> RunResult:
    res = RunResult()
    view, logical, sf, W = materialise(sc)
    L = len(logical)
    layers = sc["layers"]
    bs = _boundaries(layers, L)
    inner = sorted(set(bs) - {0, L})
    kinds = [l["k"] for l in layers]
    if len(layers) >= 3:
        res.probes["depth_ge_3"] += 1
    for k in kinds:
        res.probes[k + "_layer"] += 1
    classes = []
    pos = 0
    reseek0 = sf.n_seek

    def resync():
        # a rejected call must leave the view where it was (an ordinary file's failed seek/read does not move
        # the cursor); then re-establish a known position with an absolute aligned seek, which must succeed
        nonlocal pos
        try:
            t = view.tell()
        except Exception as e:      # noqa: BLE001
            t = "raised %s" % type(e).__name__
        if t != pos:
            res.add(PROP, "position_after_rejected_call", "after a rejected unaligned call tell() is %r, was %r before the call" % (t, pos))
            return False
        try:
            r = view.seek(0, 0)
        except Exception as e:      # noqa: BLE001
            res.add(PROP, "seek_exception", "absolute seek(0) raised %s after a rejected call" % type(e).__name__,
                    exc=type(e).__name__)
            return False
        if r != 0 or view.tell() != 0:
            res.add(PROP, "seek_result", "seek(0,SET) returned %r, tell %r" % (r, view.tell()))
            return False
        pos = 0
        return True

    with StepClock(100000 + len(sc["ops"]) * (300 + 20 * len(sf._data))) as clk:
        for i, op in enumerate(sc["ops"]):
            if op[0] == "tell":
                got = view.tell()
                classes.append("t")
                if got != pos:
                    res.add(PROP, "tell_mismatch", "op %d: tell()=%r, model %r" % (i, got, pos))
                    break
            elif op[0] == "seek":
                off, wh = op[1], op[2]
                base = {0: 0, 1: pos, 2: L}[wh]
                raw = base + off
                exp = min(max(raw, 0), L)
                if exp != raw:
                    res.probes["seek_clamped"] += 1
                classes.append("s%d%s" % (wh, "c" if exp != raw else ("b" if exp in bs else "")))
                must_reject = exp % W != 0
                try:
                    got = view.seek(off, wh)
                except Exception as e:      # noqa: BLE001
                    if must_reject or raw % W != 0:
                        res.probes["rev_rejected"] += 1
                        if not resync():
                            break
                        continue
                    res.add(PROP, "seek_exception", "op %d: seek(%d,%d) at %d raised %s: %s" % (i, off, wh, pos, type(e).__name__, e),
                            exc=type(e).__name__)
                    break
                if must_reject:
                    res.add(PROP, "unaligned_accepted", "op %d: seek to unaligned position %d accepted (width %d)" % (i, exp, W))
                    break
                if got != exp:
                    res.add(PROP, "seek_result", "op %d: seek(%d,%d) from %d returned %r, model %r" % (i, off, wh, pos, got, exp))
                    break
                pos = exp
            else:
                n = op[1]
                rem = L - pos
                nn = rem if n < 0 else min(rem, n)
                exp = logical[pos:pos + nn]
                if nn == rem:
                    res.probes["read_at_end"] += 1
                    if n == 0:
                        res.probes["read_zero_at_end"] += 1
                crossed = sum(1 for b in inner if pos < b < pos + nn)
                if crossed >= 2:
                    res.probes["read_spans_2plus_boundaries"] += 1
                if n > rem:
                    res.probes["read_beyond_end"] += 1
                classes.append("r%s%s%s" % ("0" if n == 0 else ("-" if n < 0 else ""), "e" if nn == rem else "", min(crossed, 3)))
                must_reject = nn % W != 0
                before = sf.n_seek
                try:
                    got = view.read(n if n >= 0 else -1)
                except Exception as e:      # noqa: BLE001
                    if must_reject or (n >= 0 and n % W != 0):
                        res.probes["rev_rejected"] += 1
                        if not resync():
                            break
                        continue
                    res.add(PROP, "read_exception", "op %d: read(%d) at %d of %d raised %s: %s" % (i, n, pos, L, type(e).__name__, e),
                            exc=type(e).__name__, at_end=(pos == L), size_zero=(nn == 0))
                    break
                if sf.n_seek > before:
                    res.probes["reseek_needed"] += 1
                if must_reject:
                    res.add(PROP, "unaligned_accepted", "op %d: read of %d bytes (not a multiple of %d) accepted" % (i, nn, W))
                    break
                if got != exp:
                    leaked = "outside_window" if (len(got) == len(exp) and got not in logical) else "wrong"
                    res.add(PROP, "read_data", "op %d: read(%d) at %d: got %d bytes %s..., model %d bytes %s... (%s)" % (
                        i, n, pos, len(got), got[:8].hex(), len(exp), exp[:8].hex(), leaked))
                    break
                pos += nn
                t = view.tell()
                if t != pos:
                    res.add(PROP, "position_after_read", "op %d: after read(%d) tell()=%r, model %r" % (i, n, t, pos))
                    break
        if sf.writes:
            res.add(PROP, "image_written", "view wrote to the base file")
    res.steps = clk.steps
    res.io_events = sf.io_events
    res.digest = digest_of(sf.event_digest(), [v.cls for v in res.violations])
    res.state_hash = jhash([kinds, [l.get("L") for l in layers], classes])
    res.nontrivial = any(c.startswith("r") and (c.endswith(("1", "2", "3")) or "e" in c) for c in classes) or res.probes["rev_rejected"] > 0
    res.sample = {"layers": layers, "ops": sc["ops"][:12], "n_ops": len(sc["ops"]), "logical_len": L}
    return res
