"""C01 - AKAI export is byte-exact for every sector allocation and file length.

Fault-free arm of the simulator: the *disk allocator* is the simulated,
seed-driven component (which sectors a file occupies, in which order they are
linked, how the directory is stored), together with the transcoder's block-size
knob.  Reference model: the independent AKAI writer's logical model.
"""
from __future__ import annotations

import random

from ..core import RunResult, digest_of, jhash, tree_digest, weighted
from ..gen_akai import expected_exports, gen_buildable
from ..model import akai as A
from ..model import wav as W
from ..seams import Sandbox, SimFile, StepClock, knobs
from .. import tool

PROP = "C01"
LEVEL = "exploration"
RUNS = {"quick": 1500, "thorough": 60000}
TIME_CAP = {"quick": 300, "thorough": 900}
CHUNK = 8          # runs per worker task (cost-aware: keeps the time cap responsive)
RULE = ("seeded AKAI logical models (1-3 partitions x 0-4 volumes x 0-8 files; sample lengths incl. 0, 1 and k*8192-140 +-2 "
        "bytes; start/end markers; rates incl. 0; S1000/S3000 type bytes; L/R pairs of equal length) serialised by an "
        "independent writer under a seeded sector allocator (6 chain-order policies, directory as chain or reserved run, "
        "directories before or after data) and a seeded transcoder block size; non-trivial = at least one sample whose "
        "chain is fragmented/out of order or whose data fills its last sector exactly; distinct = hash of (shape, chains, knob)")
STATE_MEASURE = "distinct (model shape, every file's sector chain, block-size knob) hashes"
COMPONENTS = {"real": ["smpl_extract (all of it: actions, akai/*, util/*, structural, transcoder, generalized/wav)", "construct", "numpy"],
              "stub": ["input file object: SimFile instead of io.BufferedReader (cross-checked against the real CLI on real files for 1 in 50 runs)",
                       "stdout captured", "output directory: real files in a /dev/shm sandbox observed through an audit hook"]}
ASSUMPTIONS = ["file, volume and stem names are [A-Z0-9] words with single inner spaces (sanitising is the identity on them); hostile names are C05/C06",
               "root key/semitone bytes are kept where the WAV smpl note stays in 0..127 (other values are C04's sweep)",
               "stereo pairs have equal length and equal rate"]
EXPECTED_PROBES = ["exported_twice", "two_partitions_same_layout", "head_not_lowest", "exact_fill", "multi_partition", "reserved_run_dir", "start_gt_0", "end_lt_n", "empty_volume",
                   "stereo_pair", "rate_zero", "dirs_after_data", "knob_not_default", "zero_length_sample", "cli_crosscheck", "dir_spans_sectors", "file_ge_4_sectors", "empty_window"]
SHRINK = {"max_attempts": 250, "max_seconds": 60.0,
          "simple_values": {"policy": ["contiguous"], "mode": ["chain"], "block": [4096], "rate": [44100]}}
KNOBS = [2, 4, 6, 64, 510, 4096, 4096, 4096, 8192, 65536]
CLI_EVERY = 50


def gen(rng: random.Random, tier: str, index: int) -> dict:
    model = gen_buildable(rng, many_files=0.012, allow_empty_window=True)
    if index % 9 == 4 and len(model["partitions"]) == 1 and total_words(model) < 400000:
        # a second partition with exactly the same layout (same tables, same chains) and different audio: equally filled or
        # cloned partitions are common on real media
        import copy
        from ..core import ScenarioInvalid
        clone = copy.deepcopy(model["partitions"][0])
        for v in clone["volumes"]:
            for f in v["files"]:
                if "key" in f:
                    f["key"] = f["key"] + ".twin"
        model["partitions"].append(clone)
        try:
            A.build(model)
            model["twin_partition"] = True
        except ScenarioInvalid:
            model["partitions"].pop()
    return {"model": model, "block": pick_knob(rng, model), "cli": index % CLI_EVERY == 7, "twice": index % 3 == 1}


def total_words(model: dict) -> int:
    return sum(f.get("n", 0) for p in model["partitions"] for v in p["volumes"] for f in v["files"])


def pick_knob(rng: random.Random, model: dict) -> int:
    """Block-size knob; one-frame blocks only on small disks (they cost a Python-level loop per frame)."""
    b = rng.choice(KNOBS)
    if b < 64 and total_words(model) > 6000:
        b = rng.choice([64, 510, 4096, 8192])
    return b


def check_export(res: RunResult, prop: str, exp: dict, er: tool.ExportResult, *, ctx: str = "") -> None:
    """Set of Exported lines = set of files = expected paths; each WAV's PCM/channels/rate equal the model's."""
    if er.exc:
        res.add(prop, "export_exception", "%sexport raised %s: %s [%s]" % (ctx, er.exc, er.exc_msg, er.exc_tb), exc=er.exc)
    rep = er.reported
    if len(set(rep)) != len(rep):
        res.add(prop, "reported_twice", "%sa path is reported twice: %s" % (ctx, sorted(p for p in set(rep) if rep.count(p) > 1)))
    if set(rep) != set(er.tree):
        res.add(prop, "reported_vs_disk", "%sreported %s, on disk %s" % (ctx, sorted(set(rep) - set(er.tree))[:4], sorted(set(er.tree) - set(rep))[:4]))
    missing = sorted(set(exp) - set(rep))
    extra = sorted(set(rep) - set(exp))
    if missing and not er.exc:
        res.add(prop, "missing_export", "%snot exported: %s" % (ctx, missing[:4]))
    if extra:
        res.add(prop, "unexpected_export", "%sunexpected: %s" % (ctx, extra[:4]))
    for path in sorted(set(exp) & set(er.tree) & set(rep)):
        e = exp[path]
        try:
            info = W.walk(er.tree[path])
        except W.WavInvalid as x:
            res.add(prop, "invalid_wav", "%s%s: %s" % (ctx, path, x), reason=x.reason)
            continue
        if info.channels != len(e["channels"]):
            res.add(prop, "channel_count", "%s%s: %d channels, model %d" % (ctx, path, info.channels, len(e["channels"])))
            continue
        if info.rate != e["rate"]:
            res.add(prop, "sample_rate", "%s%s: rate %d, model %d" % (ctx, path, info.rate, e["rate"]))
        for c, want in enumerate(e["channels"]):
            got = info.channel(c)
            if got != want:
                kind = "pcm_short" if want.startswith(got) else ("pcm_long" if got.startswith(want) else "pcm_wrong")
                res.add(prop, kind, "%s%s ch%d: got %d bytes, model %d bytes, first diff at byte %d" % (
                    ctx, path, c, len(got), len(want), _first_diff(got, want)), exact_fill=e.get("exact_fill", False))
                break


def _first_diff(a: bytes, b: bytes) -> int:
    for i, (x, y) in enumerate(zip(a, b)):
        if x != y:
            return i
    return min(len(a), len(b))


def _allowed_ranges(lay: A.AkaiLayout):
    """Byte ranges the tool may legitimately read: headers, directory sectors, the used part of every file."""
    rs = []
    for p in lay.partitions:
        rs.append((p.base, p.base + A.HDR_SECTORS * A.SECTOR))
        for v in p.volumes:
            for a in v.dir_abs:
                rs.append((a, a + A.SECTOR))
            for f in v.files:
                left = f.size
                for a in f.sectors_abs:
                    rs.append((a, a + min(A.SECTOR, max(0, left))))
                    left -= A.SECTOR
    # bytes after the last partition are legitimately probed for one more partition header
    end = max([p.base + p.nsect * A.SECTOR for p in lay.partitions] + [0])
    rs.append((end, lay.size + A.HDR_TOTAL))
    rs.sort()
    merged = []
    for a, b in rs:
        if b <= a:
            continue
        if merged and a <= merged[-1][1]:
            merged[-1][1] = max(merged[-1][1], b)
        else:
            merged.append([a, b])
    return merged


def _inside(merged, pos: int, n: int) -> bool:
    import bisect
    if n <= 0:
        return True
    i = bisect.bisect_right(merged, [pos, float("inf")]) - 1
    return i >= 0 and merged[i][0] <= pos and pos + n <= merged[i][1]


def probes_for(res: RunResult, model: dict, lay: A.AkaiLayout) -> bool:
    nontrivial = False
    if len(model["partitions"]) > 1:
        res.probes["multi_partition"] += 1
    for part in model["partitions"]:
        if part.get("dirs_last"):
            res.probes["dirs_after_data"] += 1
        for vol in part["volumes"]:
            if not vol["files"]:
                res.probes["empty_volume"] += 1
            if len(vol["files"]) > 340:
                res.probes["dir_spans_sectors"] += 1
            if vol["dir"]["mode"] == "run":
                res.probes["reserved_run_dir"] += 1
            for f in vol["files"]:
                if f["kind"] != "sample":
                    continue
                n = f["n"]
                if n == 0:
                    res.probes["zero_length_sample"] += 1
                if n > 0 and f.get("start", 0) == f.get("end", n):
                    res.probes["empty_window"] += 1
                if f.get("start", 0) > 0:
                    res.probes["start_gt_0"] += 1
                if f.get("end", n) < n:
                    res.probes["end_lt_n"] += 1
                if f.get("rate") == 0:
                    res.probes["rate_zero"] += 1
                if f.get("pair"):
                    res.probes["stereo_pair"] += 1
                if n > 0 and (A.SAMPLE_HDR + 2 * n) % A.SECTOR == 0:
                    res.probes["exact_fill"] += 1
                    nontrivial = True
    for _, _, fl in lay.files():
        if len(fl.chain) >= 4:
            res.probes["file_ge_4_sectors"] += 1
        if len(fl.chain) > 1 and fl.chain[0] != min(fl.chain):
            res.probes["head_not_lowest"] += 1
        if len(fl.chain) > 1 and fl.chain != list(range(fl.chain[0], fl.chain[0] + len(fl.chain))):
            nontrivial = True
    return nontrivial


def run(sc: dict) -> RunResult:
    res = RunResult()
    model = sc["model"]
    img, lay = A.build(model)
    exp = expected_exports(model)
    nontrivial = probes_for(res, model, lay)
    block = sc.get("block", 4096)
    if block != 4096:
        res.probes["knob_not_default"] += 1
    sf = SimFile(img)
    sf.watch = []
    budget = 5_000_000 + 400 * (len(img) // 16)
    with Sandbox("c01") as sb, knobs(block), StepClock(budget) as clk:
        image, r0 = tool.open_image(sf)
        if image is None:
            res.add(PROP, "open_failed", "determine_image_type raised %s: %s" % (r0.exc, r0.exc_msg), exc=r0.exc)
            er = tool.ExportResult()
        else:
            er = tool.run_export(image, sb)
            if er.budget:
                res.add(PROP, "no_result", "export exceeded the step budget of %d" % budget)
            check_export(res, PROP, exp, er)
            if model.get("twin_partition"):
                res.probes["two_partitions_same_layout"] += 1
            if sc.get("twice") and not res.violations:
                # the same opened image exported once more yields the same files
                res.probes["exported_twice"] += 1
                er_b = tool.run_export(image, sb, "again")
                if er_b.budget:
                    res.add(PROP, "no_result", "second export exceeded the step budget of %d" % budget)
                check_export(res, PROP, exp, er_b, ctx="[second export of the same image] ")
            if er.escapes:
                res.add(PROP, "write_outside_destination", repr(er.escapes[:3]))
    # seam invariant: only allocated bytes of the image are ever read
    merged = _allowed_ranges(lay)
    bad = [(p, n) for p, n in sf.watch if not _inside(merged, p, n)]
    if bad and not res.violations:
        res.add(PROP, "read_outside_allocated_sectors", "first %s of %d reads outside header/directory/file sectors" % (bad[:3], len(bad)))
    if sf.writes:
        res.add(PROP, "image_written", "the image file object was written to")
    res.steps = clk.steps
    res.io_events = sf.io_events
    out_digest = tree_digest(er.tree)
    # cross-check through the real CLI on real files
    if sc.get("cli") and not res.violations:
        res.probes["cli_crosscheck"] += 1
        with knobs(None):
            pass
        rc, out, tree = tool.cli_export({"disk.img": img}, "disk.img")
        if block == 4096 and (tree_digest(tree) != out_digest or sorted(l for l in out.split("\n") if l) != sorted(l for l in er.stdout.split("\n") if l)):
            res.add(PROP, "cli_differs_from_simulation", "rc=%d; CLI exported %d files, simulation %d" % (rc, len(tree), len(er.tree)))
        elif block != 4096:
            # the subprocess runs with the default knob: its output must still equal the model
            er2 = tool.ExportResult(stdout=out, reported=[l[9:] for l in out.split("\n") if l.startswith("Exported ")], tree=tree)
            check_export(res, PROP, exp, er2, ctx="[real CLI] ")
    res.digest = digest_of(sf.event_digest(), er.stdout, out_digest, [v.cls for v in res.violations])
    res.state_hash = jhash([[(f.name, f.chain) for _, _, f in lay.files()], [v.dir_chain for p in lay.partitions for v in p.volumes], block])
    res.nontrivial = nontrivial
    res.sample = {"partitions": len(model["partitions"]),
                  "volumes": [[v["name"], v["dir"]["mode"], [(f["name"], f["kind"], f.get("n"), f.get("policy")) for f in v["files"]]]
                              for p in model["partitions"] for v in p["volumes"]][:4],
                  "chains": [(f.name, f.chain) for _, _, f in lay.files()][:8], "block": block, "image_bytes": len(img)}
    return res
