"""C16 - results depend only on the image bytes, not on what was looked at before.

Operation histories (ls at valid / invalid paths, export) on ONE opened image
object are compared, operation by operation, with the same single operation on a
FRESH image object over a fresh SimFile.
"""
from __future__ import annotations

import contextlib
import random
from typing import Dict, List

from ..core import RunResult, digest_of, jhash, tree_digest, weighted
from ..gen_akai import gen_buildable as gen_akai
from ..gen_roland import gen_model as gen_roland
from ..model import akai as A
from ..model import cdda as C
from ..model import roland as R
from ..seams import Sandbox, SimFile, StepClock, VirtualFS, knobs
from .. import tool
from .c03 import gen_cdda_model
from .c09 import _paths as model_paths

PROP = "C16"
LEVEL = "exploration"
RUNS = {"quick": 400, "thorough": 30000}
TIME_CAP = {"quick": 400, "thorough": 900}
SELFCHECK_N = 4
CHUNK = 2          # runs per worker task (cost-aware: keeps the time cap responsive)
RULE = ("seeded histories of 2-12 operations from {ls(valid path at any level), ls(invalid path), export} in seeded order on one image "
        "object (AKAI, Roland, CDDA), each compared with the same operation on a fresh object; non-trivial = the history holds an export "
        "after another export or an ls of a leaf before its parent was listed; distinct = hash of (image digest, op list)")
STATE_MEASURE = "distinct (image digest, operation history) hashes"
COMPONENTS = {"real": ["smpl_extract (lazy children/files/SAT realisation, memoisation, in-place renaming, data-stream cursors)"],
              "stub": ["SimFile / virtual FS input with a write monitor", "sandboxed output"]}
ASSUMPTIONS = ["history length <= 12", "reference = a fresh image object per operation over identical bytes"]
EXPECTED_PROBES = ["export_after_export", "leaf_before_parent", "export_before_any_ls", "invalid_path_first", "akai", "roland", "cdda", "ls_after_export", "positional_path", "library_touch", "same_tail_different_parent", "other_disc_first"]
SHRINK = {"max_attempts": 120, "max_seconds": 120.0, "simple_values": {"policy": ["contiguous"], "block": [4096]}}


def gen(rng: random.Random, tier: str, index: int) -> dict:
    if rng.random() < 0.3:
        # names that need sanitising and de-duplication; paths are addressed by position in the listing of a fresh image
        from .. import namesim
        sc = namesim.gen(rng, cdda_ok=True, pairs=True)
        sc.pop("touch_first", None)
        ops: List[list] = []
        for _ in range(rng.randint(2, 9)):
            r = rng.random()
            if r < 0.3:
                ops.append(["export"])
            elif r < 0.45:
                ops.append(["ls", rng.choice(["", "nope", "x/y"])])
            else:
                ops.append(["lsn"] + [rng.randint(0, 3) for _ in range(rng.randint(1, 3))])
        sc["ops"] = ops
        sc["hostile"] = True
        return sc
    fmt = weighted(rng, [("akai", 5), ("roland", 3), ("cdda", 2)])
    if fmt == "akai":
        model = gen_akai(rng, max_parts=2, max_vols=2, max_files=4, big=False)
    elif fmt == "roland":
        model = gen_roland(rng, max_samples=4, max_perf=2, max_vols=2, max_clusters=2)
    else:
        model = gen_cdda_model(rng)
    if fmt == "akai" and len(model["partitions"]) >= 2 and model["partitions"][0]["volumes"] and model["partitions"][1]["volumes"] and rng.random() < 0.5:
        # the same volume (and file) name in two partitions: equal names at equal depth under different parents
        va, vb = rng.choice(model["partitions"][0]["volumes"]), rng.choice(model["partitions"][1]["volumes"])
        vb["name"] = va["name"]
        if va["files"] and vb["files"] and rng.random() < 0.7:
            fb = rng.choice(vb["files"])
            if not any(f is not fb and f["name"] == va["files"][0]["name"] for f in vb["files"]):
                fb["name"] = va["files"][0]["name"]
    sc = {"fmt": fmt, "model": model, "block": rng.choice([4096, 4096, 510, 64])}
    paths = _all_paths(sc)
    ops: List[list] = []
    for _ in range(rng.randint(2, 12)):
        r = rng.random()
        if r < 0.08 and fmt == "cdda":
            ops.append(["touch"])          # library-level look at the image (children / get_info) without going through ls
        elif r < 0.3:
            ops.append(["export"])
        elif r < 0.42:
            ops.append(["ls", rng.choice(["nope", "A/nope", "x/y/z", "//", "A:/../B", " ", paths[-1] + "/deeper"])])
        else:
            p = rng.choice(paths)
            v = rng.random()
            if v < 0.1:
                p = p + "/"
            elif v < 0.2:
                p = " " + p + " "
            elif v < 0.25:
                p = p.replace("/", "\\")
            ops.append(["ls", p])
    # two successive requests whose paths differ at an earlier level and agree at a deeper one
    twins = [(a, b) for a in paths for b in paths if a != b and "/" in a and a.count("/") == b.count("/")
             and a.split("/", 1)[1] == b.split("/", 1)[1]]
    if twins and rng.random() < 0.6:
        a, b = rng.choice(twins)
        at = rng.randint(0, len(ops))
        ops[at:at] = [["ls", a], ["ls", b]] + ([["ls", a]] if rng.random() < 0.3 else [])
        sc["twin_paths"] = True
    sc["ops"] = ops
    if fmt in ("akai", "roland") and index % 4 == 1:
        # before the image under test is touched, the same process lists and exports ANOTHER disc of identical layout and
        # different audio; the references are computed in a forked child that never sees that other disc
        sc["decoy"] = True
    return sc


def _all_paths(sc: dict) -> List[str]:
    if sc["fmt"] == "cdda":
        return [""] + [t for t, _ in C.expected_tracks(sc["model"])]
    return [p for p in model_paths(sc) if p != "no such/entry"]


def _resolve_positional(sc: dict, sb: Sandbox, cache: dict, idxs) -> str:
    """Path of the item at listing positions idxs (modulo the listing length), read off fresh images."""
    path = ""
    for k in idxs:
        key = "L:" + path
        if key not in cache:
            cache[key] = _fresh(sc, ["ls", path], sb, 0)
        got = cache[key]
        rows = tool.parse_ls_table(got[1]) if got[0] == "ls" else None
        if not rows:
            break
        name = rows[k % len(rows)][0]
        if name.strip() == "":
            break
        path = (path + "/" if path else "") + name
    return path


def _open(sc: dict):
    fmt, m = sc["fmt"], sc["model"]
    if fmt == "akai":
        img, _ = A.build(m)
        sf = SimFile(img)
        return sf, [sf], contextlib.nullcontext()
    if fmt == "roland":
        img, _ = R.build(m)
        sf = SimFile(img)
        return sf, [sf], contextlib.nullcontext()
    binsf = SimFile(C.bin_bytes(m))
    vfs = VirtualFS({"/vfs/d.cue": C.cue_text(m).encode(), "/vfs/" + m["bin_name"]: binsf})
    return "/vfs/d.cue", [binsf], vfs.installed()


def _decoy_model(sc: dict) -> dict:
    import copy
    m = copy.deepcopy(sc["model"])
    if sc["fmt"] == "akai":
        for p in m["partitions"]:
            for v in p["volumes"]:
                for f in v["files"]:
                    if "key" in f:
                        f["key"] += ".decoy"
    else:
        for sm in m["samples"]:
            sm["key"] += ".decoy"
    return m


def _refs_in_child(sc: dict, ops: List[list], sb: Sandbox) -> Dict[str, tuple]:
    """Reference results (fresh image per operation) computed in a forked child, so that nothing this process does afterwards
    (the decoy disc) and nothing the child does can influence the other side."""
    import json as _json
    import os as _os
    import select as _select
    import struct as _struct
    import time as _time
    from ..core import HarnessError
    rfd, wfd = _os.pipe()
    pid = _os.fork()
    if pid == 0:
        try:
            _os.close(rfd)
            out = {}
            for n, op in enumerate(ops):
                key = digest_of(op)
                if key not in out:
                    out[key] = list(_fresh(sc, op, sb, 1000 + n))
            blob = _json.dumps(out).encode()
            blob = _struct.pack("<I", len(blob)) + blob
            while blob:
                k = _os.write(wfd, blob)
                blob = blob[k:]
        except BaseException:      # noqa: BLE001 - reported by the parent as a missing result
            pass
        finally:
            _os._exit(0)
    _os.close(wfd)
    buf = b""
    deadline = _time.monotonic() + 600
    while _time.monotonic() < deadline:
        r, _, _ = _select.select([rfd], [], [], 1.0)
        if not r:
            continue
        chunk = _os.read(rfd, 1 << 16)
        if not chunk:
            break
        buf += chunk
    _os.close(rfd)
    try:
        _os.kill(pid, 9)
    except OSError:
        pass
    _os.waitpid(pid, 0)
    if len(buf) < 4 or len(buf) < 4 + _struct.unpack("<I", buf[:4])[0]:
        return {}
    doc = _json.loads(buf[4:4 + _struct.unpack("<I", buf[:4])[0]])
    return {k: tuple(v) for k, v in doc.items()}


def _fresh(sc: dict, op: list, sb: Sandbox, n: int):
    target, sfs, cm = _open(sc)
    with cm:
        image, r0 = tool.open_image(target)
        if image is None:
            return ("open_failed", r0.exc)
        if op[0] == "ls":
            r = tool.run_ls(image, op[1])
            return ("ls", r.stdout, r.exc)
        er = tool.run_export(image, sb, "fresh%d" % n)
        return ("export", er.stdout, tree_digest(er.tree), er.exc, len(er.tree))


def run(sc: dict) -> RunResult:
    res = RunResult()
    fmt = sc["fmt"]
    res.probes[fmt] += 1
    ops = sc["ops"]
    if sc.get("twin_paths"):
        res.probes["same_tail_different_parent"] += 1
    # probes on the history
    seen_export = False
    listed = set()
    nontrivial = False
    for i, op in enumerate(ops):
        if op[0] == "lsn":
            continue
        if op[0] == "export":
            if seen_export:
                res.probes["export_after_export"] += 1
                nontrivial = True
            if not listed and not seen_export:
                res.probes["export_before_any_ls"] += 1
            seen_export = True
        elif op[0] == "touch":
            res.probes["library_touch"] += 1
        else:
            p = op[1].strip().strip("/")
            if seen_export:
                res.probes["ls_after_export"] += 1
            if sc.get("hostile"):
                continue
            if i == 0 and p not in _all_paths(sc):
                res.probes["invalid_path_first"] += 1
            if "/" in p and p.rsplit("/", 1)[0] not in listed and p in _all_paths(sc):
                res.probes["leaf_before_parent"] += 1
                nontrivial = True
            listed.add(p)
    with Sandbox("c16") as sb, knobs(sc.get("block", 4096)), StepClock(600_000_000) as clk:
        ref_cache: Dict[str, tuple] = {}
        if sc.get("decoy") and all(o[0] in ("ls", "export") for o in ops):
            ref_cache = _refs_in_child(sc, [o for o in ops if o[0] in ("ls", "export")], sb)
            if not ref_cache and any(o[0] in ("ls", "export") for o in ops):
                res.add(PROP, "no_result", "the reference arm (fresh image per operation, forked child) produced no result")
            else:
                res.probes["other_disc_first"] += 1
                dsc = dict(sc, model=_decoy_model(sc))
                dt, _dsfs, dcm = _open(dsc)
                with dcm:
                    dimg, _ = tool.open_image(dt)
                    if dimg is not None:
                        tool.run_ls(dimg, "")
                        tool.run_export(dimg, sb, "decoy")
        target, sfs, cm = _open(sc)
        digests0 = [s.content_digest() for s in sfs]
        hist = []
        with cm:
            image, r0 = tool.open_image(target)
            if image is None:
                res.add(PROP, "open_failed", "%s: %s" % (r0.exc, r0.exc_msg))
            else:
                nexp = 0
                for i, op in enumerate(ops):
                    if op[0] == "lsn":
                        op = ["ls", _resolve_positional(sc, sb, ref_cache, op[1:])]
                        res.probes["positional_path"] += 1
                    key = digest_of(op)
                    if op[0] == "touch":
                        try:
                            image.get_info().to_string()
                        except Exception:      # noqa: BLE001
                            pass
                        continue
                    if op[0] == "ls":
                        r = tool.run_ls(image, op[1])
                        got = ("ls", r.stdout, r.exc)
                        budget = r.budget
                    else:
                        er = tool.run_export(image, sb, "hist%d" % nexp)
                        nexp += 1
                        got = ("export", er.stdout, tree_digest(er.tree), er.exc, len(er.tree))
                        budget = er.budget
                    if budget:
                        res.add(PROP, "no_result", "op %d %s exceeded the step budget" % (i, op))
                        break
                    hist.append(got)
                    if key not in ref_cache:
                        ref_cache[key] = _fresh(sc, op, sb, len(ref_cache))
                    want = ref_cache[key]
                    if got != want:
                        if op[0] == "ls":
                            res.add(PROP, "ls_depends_on_history", "op %d ls %r after %s differs from a fresh image (exc %s vs %s; %d vs %d chars)" % (
                                i, op[1], [o[0] if o[0] != "ls" else "ls " + o[1] for o in ops[:i]][-5:], got[2], want[2], len(got[1]), len(want[1])),
                                fmt=fmt, after_export=any(o[0] == "export" for o in ops[:i]))
                        else:
                            res.add(PROP, "export_depends_on_history", "op %d export after %s differs from a fresh image: %d vs %d files, exc %s vs %s, stdout equal %s" % (
                                i, [o[0] if o[0] != "ls" else "ls " + o[1] for o in ops[:i]][-5:], got[4], want[4], got[3], want[3], got[1] == want[1]),
                                fmt=fmt, second_export=any(o[0] == "export" for o in ops[:i]))
                        break
        if any(s.writes for s in sfs):
            res.add(PROP, "image_written", "the image was written to")
        if [s.content_digest() for s in sfs] != digests0:
            res.add(PROP, "image_modified", "image content digest changed")
    res.steps = clk.steps
    res.io_events = sum(s.io_events for s in sfs)
    res.digest = digest_of([s.event_digest() for s in sfs], hist, [v.cls for v in res.violations])
    res.state_hash = jhash([digests0, ops])
    res.nontrivial = nontrivial or (bool(sc.get("hostile")) and sum(1 for o in ops if o[0] != "ls") >= 2)
    res.sample = {"fmt": fmt, "ops": ops, "image_bytes": sum(s.size for s in sfs)}
    return res
