"""C07 - allocation chains resolve to exactly the linked sectors, and always terminate.

Three targets, all real code:
  links : FileAllocationTable(stream, size, links).get_path(start)
  akai  : raw SAT words -> SegmentAllocationTableAdapter.parse -> get_path / get_segment().read
  roland: raw FAT words in a simulated image -> FatAreaParser.parse_stream -> get_file().read

Faults are *stored-data faults on the table*: cycle, self-link, cross-link/merge,
link beyond the table, link into a free entry, missing end marker.  Termination
is decided by the deterministic step clock.
"""
from __future__ import annotations

import random
import struct
from typing import Dict, List, Optional, Tuple

from ..core import RunResult, ScenarioInvalid, digest_of, jhash, pcm_bytes, weighted
from ..seams import SimFile, StepBudgetExceeded, StepClock

PROP = "C07"
LEVEL = "fault_enumeration"
RUNS = {"quick": 9000, "thorough": 1200000}
TIME_CAP = {"quick": 300, "thorough": 900}
RULE = ("enumerated block: every link table over <=4 (thorough 5) sectors, every raw AKAI SAT over <=4 (thorough 6) sectors, every "
        "raw Roland FAT region over 3 (thorough 4) clusters, each entry drawn from {free,end,reserved,error,each in-range link,"
        "out-of-range} and every start sector; then seeded tables of 4..64 words and of the real size (11386 / 65536) made of "
        "disjoint well-formed chains in random placement plus 0..3 injected table faults; non-trivial = the table holds at least "
        "one chain of >=2 sectors or at least one fault; distinct = hash of (target, table words)")
STATE_MEASURE = "distinct (target, table size, table words) hashes"
COMPONENTS = {"real": ["smpl_extract.util.fat.FileAllocationTable/FileStream", "smpl_extract.akai.sat (adapter + Segment)",
                       "smpl_extract.roland.s7xx.fat (FatAreaParser, RolandFileAllocationTable)", "construct"],
              "stub": ["SimFile as the partition / image stream"]}
ASSUMPTIONS = ["a chain is treated as well-formed only if every one of its sectors has exactly one predecessor among *all* table "
               "entries (none for the head) and it ends in an end marker; anything else is only required to terminate",
               "a Roland table containing a stray error/reserved/free-terminated chain elsewhere may be rejected as a whole",
               "step clock = sys.monitoring PY_START+JUMP; budgets are >=20x the cost of a clean resolution"]
EXPECTED_PROBES = ["akai_head_not_lowest", "chain_of_900_plus_sectors", "akai_reserved_run", "fault_cycle", "fault_self", "fault_cross", "fault_oob",
                   "fault_into_free", "roland_chain_permuted", "wellformed_table", "malformed_elsewhere", "chain_malformed"]
EXHAUSTIVE = {"quick": False, "thorough": False}
SHRINK = {"max_attempts": 400, "max_seconds": 40.0}

A_FREE, A_EOF, A_RES, A_RES2 = 0x0000, 0xC000, 0x4000, 0x8000
R_FREE, R_RES, R_ERR, R_END = 0x0000, 0x0001, 0xFFF7, 0xFFF8
R_N = 65536
FAT_OFF, DATA_OFF, CL = 0x80800, 0x2B1000, 0x2400
AK_SECT = 8192


# --------------------------------------------------------------------------
# enumeration helpers
# --------------------------------------------------------------------------

def _akai_alphabet(n: int) -> List[int]:
    return [A_FREE, A_EOF, A_RES] + list(range(1, n)) + [n + 7]


def _links_alphabet(n: int) -> List[int]:
    return [-1] + list(range(n))          # -1 = end


def _roland_alphabet(k: int) -> List[int]:
    return [R_FREE, R_RES, R_ERR, 0xFFFF] + list(range(2, 2 + k))


def _enum_plan(tier: str):
    """List of (target, n, count) blocks; an index inside a block is one table."""
    if tier == "quick":
        plan = [("links", n, len(_links_alphabet(n)) ** n) for n in (1, 2, 3, 4)]
        plan += [("akai", n, len(_akai_alphabet(n)) ** n) for n in (2, 3, 4)]
        plan += [("roland", 3, len(_roland_alphabet(3)) ** 3)]
    else:
        plan = [("links", n, len(_links_alphabet(n)) ** n) for n in (1, 2, 3, 4, 5)]
        plan += [("akai", n, len(_akai_alphabet(n)) ** n) for n in (2, 3, 4, 5, 6)]
        plan += [("roland", k, len(_roland_alphabet(k)) ** k) for k in (3, 4)]
    return plan


def _enum_count(tier: str) -> int:
    return sum(c for _, _, c in _enum_plan(tier))


def _enum_scenario(tier: str, index: int) -> dict:
    for target, n, count in _enum_plan(tier):
        if index < count:
            alpha = {"links": _links_alphabet, "akai": _akai_alphabet, "roland": _roland_alphabet}[target](n)
            words = []
            r = index
            for _ in range(n):
                r, d = divmod(r, len(alpha))
                words.append(alpha[d])
            if target == "roland":
                table = {str(2 + i): w for i, w in enumerate(words)}
                return {"target": "roland", "sparse": table, "starts": list(range(2, 2 + n)), "enumerated": True, "k": n}
            return {"target": target, "n": n, "words": words, "starts": list(range(n)), "enumerated": True}
        index -= count
    raise ScenarioInvalid("index outside the enumerated block")


# --------------------------------------------------------------------------
# seeded generation
# --------------------------------------------------------------------------

def _gen_chains(rng: random.Random, sectors: List[int], max_chains: int, max_len: int, forbid_link_to=()):
    """Disjoint chains over a shuffled subset of ``sectors``."""
    pool = list(sectors)
    rng.shuffle(pool)
    chains = []
    while pool and len(chains) < max_chains:
        k = min(len(pool), weighted(rng, [(1, 2), (2, 3), (3, 3), (rng.randint(1, max_len), 3)]))
        ch = pool[:k]
        pool = pool[k:]
        order = weighted(rng, [("random", 4), ("asc", 2), ("desc", 2), ("head_high", 2)])
        if order == "asc":
            ch.sort()
        elif order == "desc":
            ch.sort(reverse=True)
        elif order == "head_high":
            m = max(ch)
            ch.remove(m)
            ch.insert(0, m)
        if any(s in forbid_link_to for s in ch[1:]):
            pool.extend(ch)       # e.g. AKAI cannot link *to* sector 0 (0 means free)
            rng.shuffle(pool)
            if len(pool) <= 2:
                break
            continue
        chains.append(ch)
    return chains, pool


FAULT_KINDS = ["cycle", "self", "cross", "oob", "into_free", "no_end"]


def _inject(rng: random.Random, words: Dict[int, int], chains: List[List[int]], free: List[int], kind: str,
            oob_value: int, free_value: int) -> Optional[str]:
    if not chains:
        return None
    ch = rng.choice(chains)
    if kind == "cycle":
        if len(ch) < 2:
            return None
        i = rng.randrange(1, len(ch))
        j = rng.randrange(0, i)
        words[ch[i]] = ch[j]
    elif kind == "self":
        s = rng.choice(ch)
        words[s] = s
    elif kind == "cross":
        others = [c for c in chains if c is not ch]
        if not others:
            return None
        o = rng.choice(others)
        words[rng.choice(ch)] = rng.choice(o)
    elif kind == "oob":
        words[rng.choice(ch)] = oob_value
    elif kind == "into_free":
        if not free:
            return None
        words[rng.choice(ch)] = rng.choice(free)
    elif kind == "no_end":
        words[ch[-1]] = free_value
    return kind


def _gen_akai(rng: random.Random) -> dict:
    real = rng.random() < 0.12
    n = 11386 if real else rng.randint(4, 64)
    words: Dict[int, int] = {}
    used = set()
    runs = []
    lo = 0
    if rng.random() < 0.6:
        # reserved run(s); a run is followed by a non-reserved sector
        a = 0 if rng.random() < 0.5 else rng.randint(0, max(0, min(n, 200) - 4))
        k = rng.randint(1, 3)
        if a + k < n:
            flag = rng.choice([A_RES, A_RES, A_RES2])
            for s in range(a, a + k):
                words[s] = flag
                used.add(s)
            runs.append(list(range(a, a + k)))
            used.add(a + k)      # guard: stays non-reserved (free or chain member is fine: re-admitted below)
    region = [s for s in range(0, min(n, 200 if real else n)) if s not in used]
    for r in runs:
        g = r[-1] + 1
        if g < n and g not in region and g not in words:
            region.append(g)
    chains, pool = _gen_chains(rng, region, rng.randint(1, 8), 9, forbid_link_to=(0,))
    if real and rng.random() < 0.3:
        # one big file: a chain of up to 2048 sectors (16 MiB), far longer than any Python-level nesting limit
        L = rng.choice([300, 900, 1000, 1100, 1500, 2048])
        a = rng.randint(300, n - L - 2)
        ch = list(range(a, a + L))
        how = rng.choice(["asc", "asc", "desc", "swapped"])
        if how == "desc":
            ch.reverse()
        elif how == "swapped":
            for _ in range(L // 10):
                i = rng.randrange(1, L - 1)
                ch[i], ch[i + 1] = ch[i + 1], ch[i]
        chains.append(ch)
    for ch in chains:
        for a, b in zip(ch, ch[1:]):
            words[a] = b
        words[ch[-1]] = A_EOF
    faults = []
    nf = weighted(rng, [(0, 4), (1, 4), (2, 2), (3, 1)])
    free = [s for s in pool if s not in words and s != 0]
    for _ in range(nf):
        k = _inject(rng, words, chains, free, rng.choice(FAULT_KINDS), n + rng.randint(0, 5), A_FREE)
        if k:
            faults.append(k)
    starts = [c[0] for c in chains] + [r[0] for r in runs]
    if rng.random() < 0.3:
        starts.append(rng.randrange(n))
    return {"target": "akai", "n": n, "sparse": {str(k): v for k, v in sorted(words.items())}, "starts": starts,
            "faults": faults}


def _gen_links(rng: random.Random) -> dict:
    n = rng.randint(2, 64)
    chains, pool = _gen_chains(rng, list(range(n)), rng.randint(1, 8), 9)
    words: Dict[int, int] = {}
    for ch in chains:
        for a, b in zip(ch, ch[1:]):
            words[a] = b
        words[ch[-1]] = -1
    faults = []
    for _ in range(weighted(rng, [(0, 3), (1, 4), (2, 2)])):
        k = _inject(rng, words, chains, pool, rng.choice(["cycle", "self", "cross", "oob"]), n + rng.randint(0, 3), -1)
        if k:
            faults.append(k)
    starts = [c[0] for c in chains]
    if rng.random() < 0.3:
        starts.append(rng.randrange(n + 2))
    return {"target": "links", "n": n, "sparse": {str(k): v for k, v in sorted(words.items())}, "starts": starts,
            "faults": faults, "size_arg": rng.choice([n, n, n, n + 3, max(1, n // 2)])}


def _gen_roland(rng: random.Random) -> dict:
    span = rng.choice([8, 16, 40, 400])
    base = rng.choice([2, 2, 2, rng.randint(2, 60000)])
    region = list(range(base, min(base + span, R_N - 10)))
    chains, pool = _gen_chains(rng, region, rng.randint(1, 6), 6)
    words: Dict[int, int] = {}
    for ch in chains:
        for a, b in zip(ch, ch[1:]):
            words[a] = b
        words[ch[-1]] = rng.choice([0xFFFF, 0xFFFF, 0xFFF8, 0xFFF9, 0xFFFC, 0xFFFE])
    faults = []
    for _ in range(weighted(rng, [(0, 4), (1, 4), (2, 2)])):
        kind = rng.choice(FAULT_KINDS + ["error_flag", "reserved_in_chain"])
        if kind == "error_flag":
            if pool:
                words[rng.choice(pool)] = R_ERR
                faults.append(kind)
            continue
        if kind == "reserved_in_chain":
            if chains:
                words[rng.choice(rng.choice(chains))] = R_RES
                faults.append(kind)
            continue
        k = _inject(rng, words, chains, [p for p in pool if p not in words], kind, rng.randint(65527, 65535), R_FREE)
        if k:
            faults.append(k)
    starts = [c[0] for c in chains]
    heads = [c[0] for c in chains if len(c) > 1]
    return {"target": "roland", "sparse": {str(k): v for k, v in sorted(words.items())}, "starts": starts, "faults": faults,
            "version2": rng.random() < 0.3, "top": rng.choice([0, 0, 1]),
            # the counter of unused clusters is just a number: it may coincide with a cluster that heads a chain
            "unused_count": rng.choice(heads) if heads and rng.random() < 0.4 else rng.choice([0, 1, 2, 40, 0xFFFF])}


def gen(rng: random.Random, tier: str, index: int) -> dict:
    ne = _enum_count(tier)
    if index < ne:
        return _enum_scenario(tier, index)
    t = weighted(rng, [("akai", 6), ("links", 3), ("roland", 1)])
    return {"akai": _gen_akai, "links": _gen_links, "roland": _gen_roland}[t](rng)


# --------------------------------------------------------------------------
# reference walks
# --------------------------------------------------------------------------

def _table(sc: dict, default: int) -> List[int]:
    if "words" in sc:
        return list(sc["words"])
    n = sc["n"]
    t = [default] * n
    for k, v in sc["sparse"].items():
        if 0 <= int(k) < n:
            t[int(k)] = v
    return t


def akai_classify(t: List[int]):
    """Returns (succ, pred_count, kind) for an AKAI SAT."""
    n = len(t)
    preds = [0] * n
    for i, v in enumerate(t):
        if v not in (A_FREE, A_EOF, A_RES, A_RES2) and 0 < v < n:
            preds[v] += 1
    return preds


def akai_walk(t: List[int], start: int, preds: List[int]):
    """Model walk. Returns (list, wellformed_chain: bool)."""
    n = len(t)
    if not 0 <= start < n:
        return None, False
    if t[start] in (A_RES, A_RES2):
        run = []
        s = start
        while s < n and t[s] in (A_RES, A_RES2):
            if preds[s]:
                return None, False
            run.append(s)
            s += 1
        if s >= n:
            return None, False       # a run closed by the end of the table, not by a non-reserved sector
        return run, True
    path, seen = [], set()
    s = start
    while True:
        if s in seen or not 0 <= s < n:
            return None, False
        if preds[s] != (0 if s == start else 1):
            return None, False
        seen.add(s)
        path.append(s)
        v = t[s]
        if v == A_EOF:
            return path, True
        if v in (A_FREE, A_RES, A_RES2) or v >= n:
            return None, False
        s = v


def akai_table_wellformed(t: List[int], preds: List[int]) -> bool:
    n = len(t)
    covered = set()
    for s in range(n):
        if t[s] == A_FREE:
            continue
        if t[s] in (A_RES, A_RES2):
            if preds[s]:
                return False
            covered.add(s)
            continue
    # the table must not end inside a reserved run
    if n and t[n - 1] in (A_RES, A_RES2):
        return False
    heads = [s for s in range(n) if t[s] not in (A_FREE, A_RES, A_RES2) and preds[s] == 0]
    for h in heads:
        p, ok = akai_walk(t, h, preds)
        if not ok:
            return False
        covered.update(p)
    return all(t[s] == A_FREE or s in covered for s in range(n))


def links_walk(t: List[int], start: int):
    n = len(t)
    preds = [0] * n
    for v in t:
        if 0 <= v < n:
            preds[v] += 1
    path, seen = [], set()
    s = start
    while True:
        if s in seen or not 0 <= s < n:
            return None, False
        if preds[s] != (0 if s == start else 1):
            return None, False
        seen.add(s)
        path.append(s)
        v = t[s]
        if v == -1:
            return path, True
        if v >= n or v < 0:
            return None, False
        s = v


def roland_walk(words: Dict[int, int], start: int, preds: Dict[int, int]):
    path, seen = [], set()
    s = start
    while True:
        if s in seen or not 2 <= s < R_N - 9:
            return None, False
        if preds.get(s, 0) != (0 if s == start else 1):
            return None, False
        seen.add(s)
        path.append(s)
        v = words.get(s, R_FREE)
        if v >= R_END:
            return path, True
        if v in (R_FREE, R_RES, R_ERR):
            return None, False
        s = v


# --------------------------------------------------------------------------
# run
# --------------------------------------------------------------------------

_ROLAND_TEMPLATE: Optional[bytearray] = None


def _sector_fill(idx: int, size: int) -> bytes:
    # every sector carries its own recognisable content
    return (b"S%06d." % idx) * (size // 8) + b"\xEE" * (size % 8)


def _run_links(sc: dict, res: RunResult) -> None:
    from smpl_extract.util.fat import FileAllocationTable, FileStream, SectorLink
    t = _table(sc, -1)
    n = len(t)
    links = [SectorLink(next=(v if v >= 0 else 0), end=(v < 0)) for v in t]
    L = 4
    data = b"".join(_sector_fill(i, L * 2)[:L] for i in range(n))
    sf = SimFile(data)
    fat = FileAllocationTable(sf, sc.get("size_arg", n), links)
    cov = set()
    whole_ok = True
    for h in range(n):
        if not any(v == h for v in t):
            pth, ok_h = links_walk(t, h)
            if not ok_h:
                whole_ok = False
                break
            cov.update(pth)
    whole_ok = whole_ok and len(cov) == n
    for start in sc["starts"]:
        exp, ok = links_walk(t, start)
        budget = 3000 + 60 * n
        out = _resolve(res, "links", lambda: fat.get_path(start), budget, start)
        _judge(res, sc, "links", start, exp, ok, whole_ok and sc.get("size_arg", n) >= n, out,
               lambda lst: FileStream(sf, L, lst), lambda lst: b"".join(data[s * L:(s + 1) * L] for s in lst), L)
    res.io_events += sf.io_events


def _run_akai(sc: dict, res: RunResult) -> None:
    from construct import Int16ul
    from smpl_extract.akai.sat import SegmentAllocationTableAdapter
    t = _table(sc, A_FREE)
    n = len(t)
    preds = akai_classify(t)
    whole_ok = akai_table_wellformed(t, preds)
    small = n <= 64
    if small:
        data = b"".join(_sector_fill(i, AK_SECT) for i in range(n))
    else:
        hi = min(400, max([int(k) for k in sc.get("sparse", {})] + [8]) + 2)       # sectors backed by data; longer chains are resolved only
        data = b"".join(_sector_fill(i, AK_SECT) for i in range(min(n, hi)))
    sf = SimFile(data)
    raw = struct.pack("<%dH" % n, *t)
    adapter = SegmentAllocationTableAdapter(sf, Int16ul[n])
    box = {}

    def decode():
        box["sat"] = adapter.parse(raw)
        return None
    out = _resolve(res, "akai_decode", decode, 20000 + 60 * n, -1)
    if out[0] != "ok":
        if out[0] == "exc" and whole_ok:
            res.add(PROP, "error_on_wellformed_table", "AKAI SAT decode raised %s on a well-formed table %s" % (out[1], _short(t)),
                    target="akai", exc=out[1])
        return
    sat = box["sat"]
    for start in sc["starts"]:
        exp, ok = akai_walk(t, start, preds)
        if ok and len(exp) > 1 and exp[0] != min(exp) and t[start] not in (A_RES, A_RES2):
            res.probes["akai_head_not_lowest"] += 1
        if ok and t[start] in (A_RES, A_RES2):
            res.probes["akai_reserved_run"] += 1
        got = _resolve(res, "akai", lambda: sat.get_path(start), 3000 + 60 * n, start)
        backed = bool(exp) and (max(exp) + 1) * AK_SECT <= len(data)
        if ok and len(exp) >= 900:
            res.probes["chain_of_900_plus_sectors"] += 1
        _judge(res, sc, "akai", start, exp, ok, whole_ok, got,
               (lambda lst: sat.get_segment(start)) if backed or not exp else None,
               lambda lst: b"".join(data[s * AK_SECT:(s + 1) * AK_SECT] for s in lst), AK_SECT)
    res.io_events += sf.io_events


def _roland_image(words: Dict[int, int], version2: bool, unused_count: int = 0) -> bytes:
    global _ROLAND_TEMPLATE
    hi = max(list(words) + [2]) if words else 2
    hi = min(hi, 600)        # clusters beyond 600 are not backed by data (links there are faults or far placements)
    if _ROLAND_TEMPLATE is None:
        _ROLAND_TEMPLATE = bytearray(DATA_OFF)
    img = bytearray(_ROLAND_TEMPLATE)
    fat = [0] * R_N
    fat[0] = 0xFFFA
    fat[1] = unused_count & 0xFFFF          # the free-cluster counter shares the table with the links
    fat[65534] = 0xFFFF
    fat[65535] = 0xFFFE if version2 else 0xFFFF
    for k, v in words.items():
        if 2 <= k < R_N - 2:
            fat[k] = v
    img[FAT_OFF:FAT_OFF + 2 * R_N] = struct.pack("<%dH" % R_N, *fat)
    img += b"".join(_sector_fill(c, CL) for c in range(hi + 2))
    return bytes(img)


_ROLAND_CLEAN_STEPS: Optional[int] = None


def _run_roland(sc: dict, res: RunResult) -> None:
    from smpl_extract.roland.s7xx.fat import FatAreaParser
    global _ROLAND_CLEAN_STEPS
    words = {int(k): v for k, v in sc["sparse"].items()}
    preds: Dict[int, int] = {}
    for k, v in words.items():
        if 2 <= v < R_END and v not in (R_ERR,) and 2 <= k < R_N - 9:
            preds[v] = preds.get(v, 0) + 1
    img = _roland_image(words, sc.get("version2", False), sc.get("unused_count", 0))
    sf = SimFile(img)
    # whole table well-formed: every non-free word in the scanned range belongs to a well-formed chain
    heads = [k for k, v in words.items() if v not in (R_FREE, R_RES) and preds.get(k, 0) == 0 and 2 <= k < R_N - 9]
    covered = set()
    whole_ok = True
    for h in heads:
        p, ok = roland_walk(words, h, preds)
        if not ok:
            whole_ok = False
            break
        covered.update(p)
    if whole_ok:
        for k, v in words.items():
            if 2 <= k < R_N - 9 and v not in (R_FREE, R_RES) and k not in covered:
                whole_ok = False
    if _ROLAND_CLEAN_STEPS is None:
        clean = SimFile(_roland_image({}, False))
        clean.seek(FAT_OFF)
        with StepClock(10 ** 9) as c0:
            FatAreaParser.parse_stream(clean)
        _ROLAND_CLEAN_STEPS = c0.steps
    box = {}

    def decode():
        sf.seek(FAT_OFF)
        box["fat"] = FatAreaParser.parse_stream(sf).fat
    out = _resolve(res, "roland_decode", decode, 20 * _ROLAND_CLEAN_STEPS + 10 ** 5, -1)
    if out[0] != "ok":
        if out[0] == "exc":
            res.probes["roland_table_rejected"] += 1
            if whole_ok:
                res.add(PROP, "error_on_wellformed_table", "Roland FAT parse raised %s on a well-formed table %s" % (out[1], _short(sorted(words.items()))),
                        target="roland", exc=out[1])
        return
    fat = box["fat"]
    top = sc.get("top", 0)
    for start in sc["starts"]:
        exp, ok = roland_walk(words, start, preds)
        if ok and len(exp) > 1 and exp != sorted(exp):
            res.probes["roland_chain_permuted"] += 1
        off = top if (ok and exp is not None and top < len(exp)) else 0
        got = _resolve(res, "roland", lambda: fat.get_path(start), 50000, start)
        exp2 = exp[off:] if (ok and exp is not None) else exp
        if off and got[0] == "ok":
            got = ("ok", got[1][off:])
        backed = bool(exp2) and max(exp2) <= min(max(list(words) + [2]), 600)
        _judge(res, sc, "roland", start, exp2, ok, whole_ok, got,
               (lambda lst: fat.get_file(start, cluster_offset=off)) if backed else None,
               lambda lst: b"".join(img[DATA_OFF + s * CL:DATA_OFF + (s + 1) * CL] for s in lst), CL)
    res.io_events += sf.io_events


def _resolve(res: RunResult, what: str, fn, budget: int, start: int):
    try:
        with StepClock(budget) as clk:
            try:
                v = fn()
            finally:
                res.steps += clk.steps
        return ("ok", v)
    except StepBudgetExceeded:
        StepClock.acknowledge()
        res.add(PROP, "step_budget", "%s: resolution from start %d did not finish within %d steps" % (what, start, budget),
                target=what)
        return ("budget", None)
    except MemoryError:
        res.add(PROP, "memory", "%s: MemoryError" % what, target=what)
        return ("budget", None)
    except RecursionError:
        return ("exc", "RecursionError")
    except Exception as e:      # noqa: BLE001
        return ("exc", type(e).__name__)


def _short(t) -> str:
    s = repr(t)
    return s if len(s) < 200 else s[:200] + "..."


def _judge(res, sc, target, start, exp, chain_ok, whole_ok, out, mk_stream, expect_bytes, sect):
    kind, val = out
    if kind == "budget":
        return
    if not chain_ok:
        res.probes["chain_malformed"] += 1
        return          # anything goes, it terminated
    if whole_ok:
        res.probes["wellformed_table"] += 1
    else:
        res.probes["malformed_elsewhere"] += 1
    if kind == "exc":
        if whole_ok:
            res.add(PROP, "error_on_wellformed_table", "%s: start %d raised %s on a well-formed table %s; model %s" % (
                target, start, val, _table_desc(sc), exp), target=target, exc=val)
        return
    got = list(val)
    if got != exp:
        head_low = bool(exp) and exp[0] == min(exp)
        res.add(PROP, "wrong_sector_list", "%s: start %d resolved to %s, table says %s (table %s)" % (
            target, start, got, exp, _table_desc(sc)), target=target, head_is_lowest=head_low,
            table_wellformed=whole_ok, shorter=len(got) < len(exp))
        return
    # a byte stream over that list yields the concatenation of those sectors
    if mk_stream is None:
        res.probes["stream_not_backed"] += 1
        return
    try:
        with StepClock(200000 + 400 * len(exp) + (sect * len(exp)) // 2) as clk:
            # a freshly obtained stream starts at its beginning; obtaining it a second time gives the same bytes again
            st = mk_stream(got)
            data = st.read(len(exp) * sect)
            tail = st.read(1)
            st2 = mk_stream(got)
            again = st2.read(len(exp) * sect)
            # ... also when the first part is fetched with a sized read and the rest with read-to-end
            st3 = mk_stream(got)
            k = min(len(exp) * sect, 150)
            part = st3.read(k) + st3.read(-1)
            reads = [data, again, part]
        res.steps += clk.steps
    except StepBudgetExceeded:
        StepClock.acknowledge()
        res.add(PROP, "step_budget", "%s: reading the stream of start %d did not finish" % (target, start), target=target + "_stream")
        return
    except Exception as e:      # noqa: BLE001
        res.add(PROP, "stream_exception", "%s: stream over %s raised %s" % (target, got, type(e).__name__), target=target,
                exc=type(e).__name__)
        return
    want = expect_bytes(exp)
    data = next((r for r in reads if r != want), data)      # every way of reading must give the concatenation
    if data != want or tail != b"":
        res.add(PROP, "stream_bytes", "%s: stream over %s returned %d bytes (+%d), expected %d; first diff at %s" % (
            target, got, len(data), len(tail), len(want), _first_diff(data, want)), target=target)


def _first_diff(a: bytes, b: bytes):
    for i, (x, y) in enumerate(zip(a, b)):
        if x != y:
            return i
    return min(len(a), len(b))


def _table_desc(sc: dict) -> str:
    if "words" in sc:
        return _short(sc["words"])
    return _short(sc.get("sparse"))


def run(sc: dict) -> RunResult:
    res = RunResult()
    target = sc["target"]
    for f in sc.get("faults", []):
        res.probes["fault_" + f] += 1
        res.faults["table:" + f] += 1
    if target == "links":
        _run_links(sc, res)
    elif target == "akai":
        _run_akai(sc, res)
    elif target == "roland":
        _run_roland(sc, res)
    else:
        raise ScenarioInvalid("unknown target")
    words = sc.get("words") or sc.get("sparse")
    res.state_hash = jhash([target, sc.get("n"), words])
    res.digest = digest_of(res.state_hash, sorted((v.cls, v.detail) for v in res.violations), sorted(res.probes.items()))
    nontrivial = bool(sc.get("faults"))
    if not nontrivial:
        if "words" in sc:
            t = sc["words"]
            nontrivial = any((0 <= v < len(t)) if target == "links" else (0 < v < len(t)) for v in t)
        else:
            nontrivial = len(sc.get("sparse", {})) >= 2
    res.nontrivial = nontrivial
    res.sample = {k: (v if k != "sparse" or len(v) < 40 else "<%d words>" % len(v)) for k, v in sc.items()}
    return res
