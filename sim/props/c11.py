"""C11 - sample streams sharing one image file handle do not disturb one another.

System under simulation: ONE SimFile, ONE opened image object, K cooperative
clients stepped one operation at a time by a seeded scheduler:

  T  a real transcoder iterator over one sample / one L-R pair (one next() per step)
  R  a raw reader issuing read(n)/seek on one sample's data stream
  D  a directory realiser: ls of a not-yet-visited path (lazy parsing moves the shared cursor)
  X  a foreign holder of the handle that moves the SimFile cursor

Oracle: per T/R client the bytes obtained equal the reference model's bytes for
that client's script - i.e. what an isolated sequential run would see.
"""
from __future__ import annotations

import random
from typing import Dict, List, Optional

from ..core import RunResult, ScenarioInvalid, digest_of, jhash, weighted
from ..gen_akai import expected_exports as akai_expected, gen_buildable as gen_akai
from ..gen_roland import gen_model as gen_roland
from ..model import akai as A
from ..model import cdda as C
from ..model import containers as K
from ..model import roland as R
from ..seams import SimFile, StepBudgetExceeded, StepClock, VirtualFS, knobs
from .. import tool
from .c03 import gen_cdda_model

PROP = "C11"
LEVEL = "exploration"
RUNS = {"quick": 1150, "thorough": 60000}
TIME_CAP = {"quick": 400, "thorough": 900}
CHUNK = 4          # runs per worker task (cost-aware: keeps the time cap responsive)
RULE = ("one SimFile + one image object (AKAI, AKAI inside 2352-byte sectors, Roland, CDDA) with 2-6 clients (T transcoder iterators, "
        "R raw readers, D lazy directory listings, X foreign cursor moves) stepped by a seeded scheduler for up to 400 steps; preceded by a "
        "bounded sweep block: per group one fixed tiny AKAI scenario (2 data clients x 3 steps + 2 foreign cursor moves = 560 interleavings, or "
        "3 data clients x 2 steps + one lazy listing = 630) of which EVERY interleaving is run once (quick: 1 group, thorough: 24 groups; "
        "coverage.sweep reports the measured count); non-trivial = at least two data clients made progress interleaved (a switch between two reads "
        "of one client); distinct = hash of (image digest, schedule)")
STATE_MEASURE = "distinct (image, schedule = sequence of client ids) hashes"
COMPONENTS = {"real": ["smpl_extract: image objects, lazy directory realisation, StreamWrapper/Offset/Reversed, SectorStream/FileStream/MdfStream, transcoder"],
              "stub": ["the shared handle is a SimFile; the scheduler and the X client are the simulator's"]}
ASSUMPTIONS = ["clients are cooperative: a switch happens between two public calls (next/read/seek/ls), which is the only place a "
               "single-threaded caller can interleave", "each data client owns a distinct sample's stream (two clients on the very same "
               "stream object would share its cursor by definition)"]
EXPECTED_PROBES = ["reseek_after_switch", "switch_at_sector_edge", "victim_stream_hit_the_cut", "switch_on_sector_boundary", "lazy_ls_between_blocks", "foreign_seek_to_expected_position",
                   "switch_after_seek", "stereo_pair_client", "reversed_stream_client", "mdf_container", "cdda", "roland", "akai", "same_sample_second_view", "sweep_interleavings", "stream_reopened"]
SHRINK = {"max_attempts": 150, "max_seconds": 120.0, "simple_values": {"policy": ["contiguous"], "block": [4096]}}


# --------------------------------------------------------------------------
# generation
# --------------------------------------------------------------------------

def _reader_script(rng: random.Random, L: int, align: int, sector: int, phase: int = 0, many: bool = False) -> List[list]:
    ops = []
    pos = 0
    if sector and L > 3 * sector and (many or rng.random() < 0.25):
        # one call that spans many sectors (whole 'middle' sectors in a row), from the start or from a small offset
        if rng.random() < 0.4:
            ops.append(["seek", (rng.choice([2, sector // 2, sector, sector + 2]) // align) * align, 0])
        for _ in range(rng.randint(1, 3)):
            n = rng.choice([L, L + align, 3 * sector, 4 * sector + align, 5 * sector, 0x8000 + align, 0x10000, 6 * sector - align])
            ops.append(["read", (n // align) * align])
        return ops
    if sector and rng.random() < 0.35:
        # reads that end exactly on the edges of the *underlying* sector / cluster grid (the view starts `phase` bytes into a
        # sector): whatever a stream remembers about "where the parent is" at such an edge is stale once another client ran
        first = (sector - phase) % sector or sector
        if rng.random() < 0.3:
            k = rng.randint(0, max(0, L // sector))
            ops.append(["seek", ((first + k * sector) // align) * align, 0])
            pos = min(L, ops[-1][1])
        else:
            ops.append(["read", (first // align) * align])
            pos = min(L, ops[-1][1])
        for _ in range(rng.randint(2, 10)):
            n = rng.choice([sector, sector, sector, 2 * sector, sector // 2, sector // 2])
            ops.append(["read", n])
            pos = min(L, pos + n)
        return ops
    for _ in range(rng.randint(2, 14)):
        if rng.random() < 0.4:
            t = rng.choice([0, L, rng.randint(0, L), (rng.randint(0, L) // max(1, sector)) * sector])
            t = (t // align) * align
            ops.append(["seek", t, 0])
            pos = min(max(t, 0), L)
        else:
            rem = L - pos
            n = rng.choice([align, 2 * align, 64, 4096, sector, sector - (pos % sector) if sector else 8, rem, rem + align, rng.randint(0, max(1, rem)),
                            3 * sector, 4 * sector + align, 0x8000, 0x10000])
            n = max(0, (n // align) * align)
            ops.append(["read", n])
            pos += min(rem, n)
    return ops


SWEEP_GROUP = 640          # >= the number of interleavings of every tiny scenario below (560 / 630)


def _sweep_groups(tier: str) -> int:
    return 1 if tier == "quick" else 24


def _multinomial(counts) -> int:
    from math import factorial
    n = factorial(sum(counts))
    for c in counts:
        n //= factorial(c)
    return n


def _unrank_interleaving(counts, k: int):
    """k-th (lexicographic) sequence of client ids in which client i occurs counts[i] times; None if k is out of range."""
    counts = list(counts)
    if k >= _multinomial(counts):
        return None
    out = []
    while sum(counts):
        for i in range(len(counts)):
            if counts[i] == 0:
                continue
            counts[i] -= 1
            m = _multinomial(counts)
            if k < m:
                out.append(i)
                break
            k -= m
            counts[i] += 1
    return out


def _gen_tiny(group: int) -> dict:
    """A fixed tiny scenario per (VERIF_SEED, group): every interleaving of it is one run of the sweep block."""
    import sim.core as _core
    rng = random.Random("c11-sweep-%d-%d" % (_core.CURRENT_BASE_SEED, group))
    kind = group % 2
    from ..gen_akai import gen_sample, safe_name
    used: set = set()
    nfiles = 2 if kind == 0 else 3
    files = []
    for i in range(nfiles):
        # 2049..4096 words = two 4096-byte blocks (+ the StopIteration step) for a transcoder client
        f = gen_sample(rng, safe_name(rng, used), "c11t%d.%d" % (group, i), n=rng.randint(2049, 4096) if kind == 0 else rng.randint(100, 2048),
                       markers=False, rich_header=False)
        f["policy"] = rng.choice(["random", "descending", "inner_permuted", "head_highest"])
        files.append(f)
    vols = [{"name": "VA", "vtype": 3, "dir": {"mode": "chain", "policy": "contiguous", "seed": 0}, "files": files[:nfiles - 1]},
            {"name": "VB", "vtype": 1, "dir": {"mode": rng.choice(["chain", "run"]), "policy": "random", "seed": rng.getrandbits(20)}, "files": files[nfiles - 1:]}]
    model = {"partitions": [{"spare": 4, "volumes": vols, "dirs_last": rng.random() < 0.5}], "trailing": 0}
    sc = {"fmt": "akai" if rng.random() < 0.7 else "akai2352", "model": model, "block": 4096, "clients": [], "schedule_seed": 0, "max_steps": 64, "tiny": True}
    tg = _data_targets(sc)
    if kind == 0:
        # two data clients x 3 steps + a foreign holder x 2 pokes: 8!/(3!3!2!) = 560 interleavings
        a, b = tg[0], tg[1]
        sc["clients"] = [{"k": "T", "target": a["path"]},
                         {"k": "R", "target": b["path"], "ops": [["read", 4096], ["seek", 8192 - 140, 0], ["read", 4096]]},
                         {"k": "X", "pokes": ["expected", "zero"], "seed": group}]
        sc["step_counts"] = [3, 3, 2]
    else:
        # three data clients x 2 steps + one lazy listing: 7!/(2!2!2!1!) = 630 interleavings
        sc["clients"] = [{"k": "T", "target": tg[0]["path"]}, {"k": "T", "target": tg[1]["path"]},
                         {"k": "R", "target": tg[2]["path"], "ops": [["read", 64], ["read", 4096]]},
                         {"k": "D", "paths": ["A/VB"]}]
        sc["step_counts"] = [2, 2, 2, 1]
    return sc


def gen(rng: random.Random, tier: str, index: int) -> dict:
    if index < SWEEP_GROUP * _sweep_groups(tier):
        group, k = divmod(index, SWEEP_GROUP)
        sc = _gen_tiny(group)
        sched = _unrank_interleaving(sc["step_counts"], k)
        if sched is None:
            # past the last interleaving of this tiny scenario: spend the slot on a seeded schedule of the same scenario
            sc["schedule_seed"] = rng.getrandbits(40)
        else:
            sc["schedule"] = sched
            sc["sweep"] = [group, k]
        return sc
    fmt = weighted(rng, [("akai", 4), ("akai2352", 2), ("roland", 3), ("cdda", 3)])
    big_name = None
    if fmt in ("akai", "akai2352"):
        model = gen_akai(rng, max_parts=2, max_vols=3, max_files=5, min_files=1, programs=True, big=(fmt == "akai"))
        if rng.random() < 0.35:
            # chains whose end points look like one ascending run while the sectors in between are out of order
            for p_ in model["partitions"]:
                for v_ in p_["volumes"]:
                    for f_ in v_["files"]:
                        if f_.get("kind") == "sample" and rng.random() < 0.7:
                            f_["policy"] = rng.choice(["inner_permuted", "inner2_permuted", "inner2_permuted"])
        smp = [f_ for p_ in model["partitions"] for v_ in p_["volumes"] for f_ in v_["files"] if f_.get("kind") == "sample" and not f_.get("pair")]
        if fmt == "akai" and smp and rng.random() < 0.2:
            # one file of 8-15 sectors whose interior sectors are linked out of order, read with calls that span all of it
            big_file = rng.choice(smp)
            big_file["n"] = rng.randint(30000, 60000)
            big_file.pop("start", None)
            big_file.pop("end", None)
            big_file["policy"] = rng.choice(["inner2_permuted", "inner2_permuted", "inner_permuted", "random"])
            big_name = big_file["name"]
    elif fmt == "roland":
        model = gen_roland(rng, max_samples=5, max_perf=3, max_vols=2, max_clusters=3, long_bias=rng.choice([0.0, 0.5, 0.8]))
    else:
        model = gen_cdda_model(rng)
    sc = {"fmt": fmt, "model": model, "block": rng.choice([4, 64, 510, 4096, 4096, 8192]), "clients": [], "schedule_seed": rng.getrandbits(40),
          "max_steps": rng.choice([30, 100, 400]), "switch_bias": rng.choice([0.5, 0.8, 0.95])}
    if fmt == "akai" and rng.random() < 0.3:
        # fault: the image is cut inside the last sector of the physically last sample.  That sample's stream runs dry; every
        # other stream (all of whose sectors lie before the cut) must still deliver its bytes, whatever was read first.
        try:
            _img, lay = A.build(model)
            used = [(max(f.sectors_abs), "f", f) for _, _, f in lay.files() if f.sectors_abs]
            used += [(max(v.dir_abs), "d", v) for p_ in lay.partitions for v in p_.volumes if v.dir_abs]
            used.sort(key=lambda t: t[0])
            last = used[-1] if used else None
            if last and last[1] == "f" and last[2].kind == "sample":
                fl = last[2]
                # the sample's 140-byte header (first chain sector) stays readable
                sc["cut"] = last[0] + 2 * rng.randint(100 if fl.sectors_abs[0] == last[0] else 1, 4000)
                sc["victim"] = "%s/%s/%s" % (A.partition_letter(fl.part), model["partitions"][fl.part]["volumes"][fl.vol]["name"], fl.name)
        except ScenarioInvalid:
            pass
    targets = _data_targets(sc)
    if sc.get("victim"):
        vt = [t for t in targets if t["path"] == sc["victim"]]
        if vt:
            # the victim is read by a raw reader that runs into the cut
            targets.remove(vt[0])
            sc["clients"].append({"k": "R", "target": vt[0]["path"], "lenient": True,
                                  "ops": [["read", 4096]] * rng.randint(0, 2) + [["read", vt[0]["len"] + 2]] + [["read", 4096]]})
    if not targets:
        sc["clients"] = [{"k": "D", "paths": _dir_paths(sc)[:4]}, {"k": "X", "pokes": [0, 1]}]
        return sc
    rng.shuffle(targets)
    nd = min(len(targets), weighted(rng, [(1, 1), (2, 4), (3, 3), (4, 1)]))
    if big_name is not None:
        bt = [t for t in targets if t["path"].rsplit("/", 1)[-1] == big_name]
        if bt:
            targets.remove(bt[0])
            targets.insert(0, bt[0])
    for t in targets[:nd]:
        if big_name is not None and t["path"].rsplit("/", 1)[-1] == big_name:
            sc["clients"].append({"k": "R", "target": t["path"], "ops": _reader_script(rng, t["len"], 2, 8192, t.get("phase", 0), many=True)})
        elif rng.random() < 0.6:
            cl = {"k": "T", "target": t["path"], "pair": t.get("pair")}
            if rng.random() < 0.3:
                cl["reopen_after"] = rng.randint(1, 3)
            sc["clients"].append(cl)
        else:
            align = 4 if fmt == "cdda" else 2
            sector = {"akai": 8192, "akai2352": 2048, "roland": 9216, "cdda": 2352}[fmt]
            sc["clients"].append({"k": "R", "target": t["path"], "ops": _reader_script(rng, t["len"], align, sector, t.get("phase", 0))})
    if sc.get("victim"):
        # a stereo export of the victim's partner reads the victim too
        for cl in sc["clients"]:
            if cl["k"] == "T" and (_pair_partner(sc, cl["target"]) or (None,))[0] == sc["victim"]:
                cl["lenient"] = True
    if fmt == "roland" and rng.random() < 0.3 and targets:
        t = targets[0]
        sc["clients"].append({"k": "R", "target": t["path"], "ops": _reader_script(rng, t["len"], 2, 9216), "second_view": True})
    if rng.random() < 0.7:
        paths = _dir_paths(sc)
        rng.shuffle(paths)
        sc["clients"].append({"k": "D", "paths": paths[:rng.randint(1, 5)]})
    if rng.random() < 0.7:
        sc["clients"].append({"k": "X", "pokes": [rng.choice(["expected", "zero", "end", "rand", "rand"]) for _ in range(rng.randint(1, 12))],
                              "seed": rng.getrandbits(30)})
    return sc


def _data_targets(sc: dict) -> List[dict]:
    fmt, m = sc["fmt"], sc["model"]
    out = []
    if fmt in ("akai", "akai2352"):
        for pi, p in enumerate(m["partitions"]):
            for v in p["volumes"]:
                seen_pairs = set()
                for f in v["files"]:
                    if f["kind"] != "sample":
                        continue
                    n = f.get("end", f["n"]) - f.get("start", 0)
                    path = "%s/%s/%s" % (A.partition_letter(pi), v["name"], f["name"])
                    out.append({"path": path, "len": 2 * n, "phase": (A.SAMPLE_HDR + 2 * f.get("start", 0)) % 8192})
    elif fmt == "roland":
        vols = [(v["name"], v["performances"]) for v in m["volumes"]]
        orph = R.orphan_performances(m)
        referenced = set()
        for _, ps in vols:
            referenced.update(ps)
        if len(referenced) < len(m["performances"]):
            vols.append(("All Performances" if not m["volumes"] else "_Orphan_perf", orph))
        used = set()
        for vn, ps in vols:
            for p in sorted(set(ps)):
                for sidx in R.referenced_samples(m, p):
                    if sidx in used:
                        continue
                    used.add(sidx)
                    sm = m["samples"][sidx]
                    out.append({"path": "%s/%s/%s" % (vn, m["performances"][p]["name"], sm["name"]), "len": len(R.expected_pcm(sm)), "sidx": sidx,
                                "phase": (2 * sm["points"][0][0]) % R.CL})
    else:
        for title, pcm in C.expected_tracks(m):
            out.append({"path": title, "len": len(pcm)})
    # empty windows are outside this property (C08 scopes views to non-empty ones; C01 owns empty samples)
    return [t for t in out if t["len"] > 0]


def _dir_paths(sc: dict) -> List[str]:
    fmt, m = sc["fmt"], sc["model"]
    out = [""]
    if fmt in ("akai", "akai2352"):
        for pi, p in enumerate(m["partitions"]):
            L = A.partition_letter(pi)
            out.append(L)
            for v in p["volumes"]:
                out.append("%s/%s" % (L, v["name"]))
                for f in v["files"][:2]:
                    out.append("%s/%s/%s" % (L, v["name"], f["name"]))
    elif fmt == "roland":
        for v in m["volumes"]:
            out.append(v["name"])
            for p in sorted(set(v["performances"]))[:2]:
                out.append("%s/%s" % (v["name"], m["performances"][p]["name"]))
        out.append("_Orphan_perf")
        out.append("All Performances")
    else:
        out += [t for t, _ in C.expected_tracks(m)][:3]
    out.append("does/not/exist")
    return out


# --------------------------------------------------------------------------
# expected bytes
# --------------------------------------------------------------------------

def _expected_for(sc: dict, path: str, raw: bool = False) -> Optional[bytes]:
    fmt, m = sc["fmt"], sc["model"]
    parts = path.split("/")
    if fmt in ("akai", "akai2352"):
        pi = ord(parts[0]) - ord("A")
        for v in m["partitions"][pi]["volumes"]:
            if v["name"] == parts[1]:
                for f in v["files"]:
                    if f["name"] == parts[2] and f["kind"] == "sample":
                        return A.expected_pcm(f)
        return None
    if fmt == "roland":
        for sm in m["samples"]:
            if sm["name"] == parts[-1]:
                return R.expected_pcm(sm)
        return None
    tracks = C.expected_tracks(m)
    for i, (title, pcm) in enumerate(tracks):
        if title == path:
            if raw and i == len(tracks) - 1:
                # the last track's *stream* runs to the end of the bin; only the transcoder drops a partial frame
                a = C.first_sector([t for t in m["tracks"]][-1]) * C.SECTOR
                return C.bin_bytes(m)[a:]
            return pcm
    return None


def _interleave(l: bytes, r: bytes) -> bytes:
    n = min(len(l), len(r)) // 2
    out = bytearray()
    for i in range(n):
        out += l[2 * i:2 * i + 2] + r[2 * i:2 * i + 2]
    return bytes(out)


# --------------------------------------------------------------------------
# clients
# --------------------------------------------------------------------------

class Client:
    def __init__(self, cid: int, spec: dict) -> None:
        self.cid, self.spec = cid, spec
        self.done = False
        self.steps = 0
        self.saved_cursor: Optional[int] = None

    def step(self, env) -> Optional[str]:
        raise NotImplementedError


class TClient(Client):
    def __init__(self, cid, spec, transcoder, expected: bytes, factory=None) -> None:
        super().__init__(cid, spec)
        self.it = iter(transcoder)
        self.expected = expected
        self.got = 0
        self.factory = factory
        self.reopen_after = spec.get("reopen_after")

    def step(self, env):
        if self.reopen_after is not None and self.factory is not None and self.steps == self.reopen_after:
            # the same sample is asked for again (as a second export of the opened image does): the new stream must
            # start from the beginning, whatever was read before
            self.it = iter(self.factory())
            self.got = 0
            self.reopen_after = None
            env["probes"]["stream_reopened"] += 1
        try:
            blk = next(self.it)
        except StopIteration:
            self.done = True
            if self.got != len(self.expected):
                return "stream_ended_early: transcoder %s stopped after %d of %d bytes" % (self.spec["target"], self.got, len(self.expected))
            return None
        want = self.expected[self.got:self.got + len(blk)]
        if blk != want:
            return "wrong_bytes: transcoder %s block at byte %d (%d bytes) differs from the model (%s... vs %s...)" % (
                self.spec["target"], self.got, len(blk), blk[:8].hex(), want[:8].hex())
        self.got += len(blk)
        return None


class RClient(Client):
    def __init__(self, cid, spec, stream, expected: bytes) -> None:
        super().__init__(cid, spec)
        self.stream, self.expected = stream, expected
        self.pos = 0
        self.i = 0
        stream.seek(0, 0)

    def step(self, env):
        ops = self.spec["ops"]
        if self.i >= len(ops):
            self.done = True
            return None
        op = ops[self.i]
        self.i += 1
        L = len(self.expected)
        self.just_seeked = op[0] == "seek"
        if op[0] == "seek":
            exp = min(max(op[1], 0), L)
            got = self.stream.seek(op[1], op[2])
            if got != exp:
                return "wrong_seek: reader %s seek(%d) returned %r, model %r" % (self.spec["target"], op[1], got, exp)
            self.pos = exp
        else:
            n = op[1]
            want = self.expected[self.pos:self.pos + n]
            got = self.stream.read(n)
            if got != want:
                return "wrong_bytes: reader %s read(%d) at %d returned %d bytes %s..., model %d bytes %s..." % (
                    self.spec["target"], n, self.pos, len(got), got[:8].hex(), len(want), want[:8].hex())
            self.pos += len(want)
            if self.stream.tell() != self.pos:
                return "wrong_tell: reader %s tell()=%r, model %r" % (self.spec["target"], self.stream.tell(), self.pos)
        if self.i >= len(ops):
            self.done = True
        return None


class DClient(Client):
    def __init__(self, cid, spec, image, baseline: Dict[str, str]) -> None:
        super().__init__(cid, spec)
        self.image, self.baseline = image, baseline
        self.i = 0

    def step(self, env):
        paths = self.spec["paths"]
        if self.i >= len(paths):
            self.done = True
            return None
        p = paths[self.i]
        self.i += 1
        r = tool.run_ls(self.image, p)
        env["ls_done"] = env.get("ls_done", 0) + 1
        want = self.baseline.get(p)
        if r.budget:
            raise StepBudgetExceeded()
        if want is not None and (r.stdout, r.exc) != want:
            return "ls_differs: ls %r interleaved with reads differs from ls on a fresh image (exc %s vs %s)" % (p, r.exc, want[1])
        if self.i >= len(paths):
            self.done = True
        return None


class XClient(Client):
    def __init__(self, cid, spec, sf: SimFile) -> None:
        super().__init__(cid, spec)
        self.sf = sf
        self.rng = random.Random(spec.get("seed", 0))
        self.i = 0

    def step(self, env):
        pokes = self.spec["pokes"]
        if self.i >= len(pokes):
            self.done = True
            return None
        kind = pokes[self.i]
        self.i += 1
        if kind == "zero":
            pos = 0
        elif kind == "end":
            pos = self.sf.size
        elif kind == "expected":
            cands = [c.saved_cursor for c in env["clients"] if c.saved_cursor is not None and c is not self]
            pos = self.rng.choice(cands) if cands else 0
            if cands:
                env["probes"]["foreign_seek_to_expected_position"] += 1
        elif isinstance(kind, int):
            pos = kind
        else:
            pos = self.rng.randint(0, self.sf.size + 10)
        self.sf.poke_cursor(pos)
        if self.i >= len(pokes):
            self.done = True
        return None


# --------------------------------------------------------------------------
# run
# --------------------------------------------------------------------------

def _open(sc: dict):
    """Returns (image, [SimFiles], context manager to keep open)."""
    import contextlib
    fmt, m = sc["fmt"], sc["model"]
    if fmt == "akai":
        img, _ = A.build(m)
        sf = SimFile(img, cut=sc.get("cut"))
        return sf, [sf], contextlib.nullcontext()
    if fmt == "akai2352":
        img, _ = A.build(m)
        sf = SimFile(K.to_2352(img))
        return sf, [sf], contextlib.nullcontext()
    if fmt == "roland":
        img, _ = R.build(m)
        sf = SimFile(img)
        return sf, [sf], contextlib.nullcontext()
    binsf = SimFile(C.bin_bytes(m))
    vfs = VirtualFS({"/vfs/d.cue": C.cue_text(m).encode(), "/vfs/" + m["bin_name"]: binsf})
    return "/vfs/d.cue", [binsf], vfs.installed()


def _generalized(image, path: str):
    el = image.parse_path(path)
    return el, el.to_generalized()


def _baseline_ls(sc: dict, paths: List[str]) -> Dict[str, tuple]:
    target, sfs, cm = _open(sc)
    out = {}
    with cm:
        image, r0 = tool.open_image(target)
        if image is None:
            return out
        for p in paths:
            # a fresh traversal state per path is not needed for the baseline: C16 owns history-independence;
            # here the baseline only has to be free of interleaved readers
            r = tool.run_ls(image, p)
            out[p] = (r.stdout, r.exc)
    return out


def run(sc: dict) -> RunResult:
    from smpl_extract.data_streams import Endianess, StreamEncoding
    from smpl_extract.generalized.sample import combine_stereo
    from smpl_extract.transcoder import make_transcoder
    res = RunResult()
    fmt = sc["fmt"]
    res.probes[{"akai": "akai", "akai2352": "akai", "roland": "roland", "cdda": "cdda"}[fmt]] += 1
    if fmt == "akai2352":
        res.probes["mdf_container"] += 1
    dpaths = []
    for c in sc["clients"]:
        if c["k"] == "D":
            dpaths += c["paths"]
    with knobs(sc.get("block", 4096)), StepClock(400_000_000) as clk:
        baseline = _baseline_ls(sc, dpaths) if dpaths else {}
        target, sfs, cm = _open(sc)
        sf = sfs[0]
        env = {"probes": res.probes, "clients": []}
        with cm:
            image, r0 = tool.open_image(target)
            if image is None:
                res.add(PROP, "open_failed", "%s: %s" % (r0.exc, r0.exc_msg))
                return res
            tool.run_ls(image, "")          # sets the naming routines, realises only the root
            clients: List[Client] = []
            try:
                for cid, spec in enumerate(sc["clients"]):
                    k = spec["k"]
                    if k in ("T", "R"):
                        exp = _expected_for(sc, spec["target"], raw=(k == "R"))
                        if not exp:
                            raise ScenarioInvalid("unknown target")
                        el, g = _generalized(image, spec["target"])
                        if spec.get("second_view"):
                            g = el.to_generalized()
                            res.probes["same_sample_second_view"] += 1
                        if type(g.data_streams[0].stream).__name__ == "StreamReversed":
                            res.probes["reversed_stream_client"] += 1
                        if k == "T":
                            mate = spec.get("pair")
                            if fmt in ("akai", "akai2352") and _pair_partner(sc, spec["target"]):
                                other_path, side = _pair_partner(sc, spec["target"])
                                _, g2 = _generalized(image, other_path)
                                l, r = (g, g2) if side == "L" else (g2, g)
                                el_exp = _expected_for(sc, other_path)
                                exp = _interleave(exp, el_exp) if side == "L" else _interleave(el_exp, exp)
                                g = combine_stereo(l, r, "stem")
                                res.probes["stereo_pair_client"] += 1
                            dest = StreamEncoding(endianess=Endianess.LITTLE, sample_width=g.data_streams[0].encoding.sample_width,
                                                  num_interleaved_channels=g.num_channels)

                            def factory(path=spec["target"], paired=bool(fmt in ("akai", "akai2352") and _pair_partner(sc, spec["target"])), dest=dest):
                                _, g1 = _generalized(image, path)
                                if paired:
                                    other_path, side = _pair_partner(sc, path)
                                    _, g2 = _generalized(image, other_path)
                                    l1, r1 = (g1, g2) if side == "L" else (g2, g1)
                                    g1 = combine_stereo(l1, r1, "stem")
                                return make_transcoder(g1.data_streams, dest)
                            clients.append(TClient(cid, spec, make_transcoder(g.data_streams, dest), exp, factory))
                        else:
                            clients.append(RClient(cid, spec, g.data_streams[0].stream, exp))
                    elif k == "D":
                        clients.append(DClient(cid, spec, image, baseline))
                    else:
                        clients.append(XClient(cid, spec, sf))
            except ScenarioInvalid:
                raise
            except StepBudgetExceeded:
                StepClock.acknowledge()
                res.add(PROP, "no_result", "step budget exceeded while setting up clients")
                return res
            except Exception as e:      # noqa: BLE001
                # creating the clients interleaves directory traversal with already-open streams: a failure here
                # (never seen on the unchanged tree) means one reader disturbed another
                res.add(PROP, "client_setup_exception", "opening client %d raised %s: %s" % (len(clients), type(e).__name__, str(e)[:160]))
                clients = []
            # a pair must not be driven by two T clients through the same stream objects: drop duplicates
            clients = _dedupe_streams(clients)
            env["clients"] = clients
            rng = random.Random(sc.get("schedule_seed", 0))
            schedule: List[int] = []
            last = None
            inter = sc.get("interleaving")
            data_switch = False
            last_data = None
            for step in range(sc.get("max_steps", 200)):
                runnable = [c for c in clients if not c.done]
                if not runnable:
                    break
                if sc.get("schedule"):
                    if step >= len(sc["schedule"]):
                        break
                    want = sc["schedule"][step]
                    c = next((x for x in runnable if x.cid == want), None)
                    if c is None:
                        if sc.get("sweep"):
                            res.probes["sweep_schedule_not_followed"] += 1
                        continue
                elif inter is not None:
                    inter, d = divmod(inter, len(runnable))
                    c = runnable[d]
                else:
                    others = [x for x in runnable if x is not last and isinstance(x, (TClient, RClient))]
                    if last is not None and getattr(last, "at_edge", False) and not last.done and others and rng.random() < 0.8:
                        # in-flight state: the last block ended exactly on a sector edge of the image - another data client runs
                        # before the stream continues into the (possibly adjacent) next sector
                        c = rng.choice(others)
                        res.probes["switch_at_sector_edge"] += 1
                    elif last is not None and getattr(last, "just_seeked", False) and others and rng.random() < 0.8:
                        # in-flight state: a stream was just positioned but not read - let another data client run now
                        c = rng.choice(others)
                        res.probes["switch_after_seek"] += 1
                    elif last is not None and not last.done and len(runnable) > 1 and rng.random() > sc.get("switch_bias", 0.8):
                        c = last
                    else:
                        c = rng.choice(runnable)
                before_seeks = sf.n_seek
                if isinstance(c, (TClient, RClient)):
                    if last_data is not None and last_data is not c and c.steps > 0 and not c.done:
                        data_switch = True
                        if sf.peek_cursor() % 2048 == 0:
                            res.probes["switch_on_sector_boundary"] += 1
                    last_data = c
                if isinstance(c, DClient) and any(isinstance(x, (TClient, RClient)) and 0 < x.steps and not x.done for x in clients):
                    res.probes["lazy_ls_between_blocks"] += 1
                try:
                    err = c.step(env)
                except StepBudgetExceeded:
                    StepClock.acknowledge()
                    res.add(PROP, "no_result", "step budget exceeded in client %d (%s)" % (c.cid, c.spec["k"]))
                    break
                except Exception as e:      # noqa: BLE001
                    err = "client_exception: client %d (%s %s) raised %s: %s" % (c.cid, c.spec["k"], c.spec.get("target", ""), type(e).__name__, str(e)[:120])
                if c.spec.get("lenient"):
                    # the stream that runs into the cut may end early, come back short or raise: only the others are judged
                    if err:
                        res.probes["victim_stream_hit_the_cut"] += 1
                        c.done = True
                    err = None
                c.steps += 1
                c.saved_cursor = sf.peek_cursor()
                c.at_edge = isinstance(c, (TClient, RClient)) and sf.peek_cursor() % 2048 == 0 and sf.peek_cursor() > 0
                schedule.append(c.cid)
                if isinstance(c, (TClient, RClient)) and last is not None and last is not c and sf.n_seek > before_seeks:
                    res.probes["reseek_after_switch"] += 1
                last = c
                if err:
                    cls, _, detail = err.partition(": ")
                    res.add(PROP, cls, detail + " | schedule %s" % schedule[-12:], client=c.spec["k"])
                    break
            if any(s.writes for s in sfs):
                res.add(PROP, "image_written", "a client wrote to the image")
    res.steps = clk.steps
    res.io_events = sum(s.io_events for s in sfs)
    res.digest = digest_of([s.event_digest() for s in sfs], schedule, [v.cls for v in res.violations])
    res.state_hash = jhash([sfs[0].content_digest(), schedule])
    if sc.get("sweep"):
        res.probes["sweep_interleavings"] += 1
    res.nontrivial = data_switch
    res.sample = {"fmt": fmt, "clients": [(c["k"], c.get("target", c.get("paths", c.get("pokes")))) for c in sc["clients"]][:6],
                  "schedule": schedule[:40], "steps": len(schedule), "block": sc.get("block")}
    return res


def _pair_partner(sc: dict, path: str):
    """For an AKAI sample that is one half of a generated L/R pair: (partner path, this side)."""
    parts = path.split("/")
    m = sc["model"]
    pi = ord(parts[0]) - ord("A")
    for v in m["partitions"][pi]["volumes"]:
        if v["name"] != parts[1]:
            continue
        me = next((f for f in v["files"] if f["name"] == parts[2]), None)
        if not me or not me.get("pair"):
            return None
        other = next((f for f in v["files"] if f.get("pair") and f["pair"][0] == me["pair"][0] and f["pair"][1] != me["pair"][1]), None)
        if other is None:
            return None
        return "%s/%s/%s" % (parts[0], parts[1], other["name"]), me["pair"][1]
    return None


def _dedupe_streams(clients: List[Client]) -> List[Client]:
    """Two data clients must not own the very same stream object (AKAI hands out one object per sample)."""
    seen = set()
    out = []
    for c in clients:
        ids = []
        if isinstance(c, TClient):
            tr = c.it
            dss = getattr(tr, "data_streams", None) or [getattr(tr, "data_stream")]
            ids = [id(d.stream) for d in dss]
        elif isinstance(c, RClient):
            ids = [id(c.stream)]
        if any(i in seen for i in ids) and not c.spec.get("second_view"):
            continue
        seen.update(ids)
        out.append(c)
    return out


def extra_evidence(ordered) -> dict:
    groups = {}
    for w in ordered:
        sw = (w.get("smp") or {}).get("sweep")
    n = sum(w["p"].get("sweep_interleavings", 0) for w in ordered)
    bad = sum(w["p"].get("sweep_schedule_not_followed", 0) for w in ordered)
    return {"sweep": {"interleavings_run": n, "per_group": "560 (2x3 steps + 2 pokes) or 630 (3x2 steps + 1 listing), every one exactly once",
                      "schedule_steps_not_followed": bad}}
