"""C06 - output paths are unique, file-system safe and confined to the destination.

Decided at the output seam: every create / mkdir / rename / remove of an export
is seen by the audit hook around the sandbox; anything outside the destination
is recorded (and blocked when it would leave the sandbox).
"""
from __future__ import annotations

import random

from ..core import RunResult, digest_of, jhash, tree_digest
from ..names import path_problem
from .. import namesim

PROP = "C06"
LEVEL = "exploration"
RUNS = {"quick": 2500, "thorough": 100000}
TIME_CAP = {"quick": 300, "thorough": 900}
CHUNK = 8          # runs per worker task (cost-aware: keeps the time cap responsive)
RULE = ("seeded sibling-name multisets at every directory level: AKAI volume and file names over the 41-character alphabet, Roland "
        "volume/performance/sample names over ASCII 0x01-0x7F incl. '/', '\\\\', '..', ':', quotes and control bytes, cue TITLEs with the same; "
        "names that become equal after sanitising, that equal a generated '(n)' suffix or a stereo stem; non-trivial = some stored name is not "
        "already a safe component or two siblings share a name; distinct = hash of all stored names")
STATE_MEASURE = "distinct (format, all stored directory and file names) hashes"
COMPONENTS = {"real": ["smpl_extract.structural (make_safe_name / make_export_name / sanitize_names_general / ExportManager)", "base.Element.export_path",
                       "cdda/image", "akai/image", "roland/s7xx/image", "actions"],
              "stub": ["SimFile / virtual FS input", "output: real files in a sandbox; sys.addaudithook observes and polices open/mkdir/rename/remove"]}
ASSUMPTIONS = ["the audit hook sees builtins.open, os.open, os.mkdir, os.rename, os.remove, os.rmdir, os.symlink, os.link"]
EXPECTED_PROBES = ["akai", "roland", "cdda", "listed_before_export", "unsafe_stored_name", "duplicate_stored_names", "separator_in_name", "dotdot_in_name", "control_char_in_name",
                   "counter_suffix_written"]
SHRINK = {"max_attempts": 200, "max_seconds": 60.0, "simple_values": {"policy": ["contiguous"], "block": [4096]}}


def gen(rng: random.Random, tier: str, index: int) -> dict:
    sc = namesim.gen(rng, cdda_ok=True, pairs=rng.random() < 0.6)
    sc["ls_first"] = index % 4 == 2
    return sc


def _all_names(sc: dict):
    fmt, m = sc["fmt"], sc["model"]
    if fmt == "akai":
        for p in m["partitions"]:
            for v in p["volumes"]:
                yield v["name"]
                for f in v["files"]:
                    yield f["name"]
    elif fmt == "roland":
        for k in ("volumes", "performances", "patches", "samples"):
            for e in m[k]:
                yield e["name"]
    else:
        for t in m["tracks"]:
            if t.get("title") is not None:
                yield t["title"]


def run(sc: dict) -> RunResult:
    res = RunResult()
    obs = namesim.execute(sc, "c06")
    er = obs.er
    res.probes[obs.fmt] += 1
    if sc.get("ls_first"):
        res.probes["listed_before_export"] += 1
    names = list(_all_names(sc))
    nontrivial = False
    for n in names:
        if path_problem(n) is not None or n != n.strip():
            res.probes["unsafe_stored_name"] += 1
            nontrivial = True
        if "/" in n or "\\" in n:
            res.probes["separator_in_name"] += 1
        if ".." in n:
            res.probes["dotdot_in_name"] += 1
        if any(ord(c) < 32 or ord(c) == 127 for c in n):
            res.probes["control_char_in_name"] += 1
    if len(set(names)) != len(names):
        res.probes["duplicate_stored_names"] += 1
        nontrivial = True
    feats = {"fmt": obs.fmt}
    if er.exc:
        res.add(PROP, "export_exception", "export raised %s: %s [%s]" % (er.exc, er.exc_msg, er.exc_tb), exc=er.exc, **feats)
    # (3) confinement, observed at the seam
    stray = getattr(er, "stray", [])
    if er.escapes or stray:
        res.add(PROP, "escape", "write outside the destination: %s %s" % (er.escapes[:3], stray[:3]), **feats)
    # (1) uniqueness: creates = Exported lines = files on disk, no path created twice
    if er.dup_creates:
        res.add(PROP, "path_written_twice", "created twice in one export: %s" % er.dup_creates[:3], **feats)
    if len(set(er.reported)) != len(er.reported):
        dup = sorted(p for p in set(er.reported) if er.reported.count(p) > 1)
        res.add(PROP, "path_reported_twice", "reported twice: %s" % dup[:3], **feats)
    if not er.exc and len(er.tree) != len(er.reported):
        res.add(PROP, "files_vs_lines", "%d files on disk, %d Exported lines" % (len(er.tree), len(er.reported)), **feats)
    if not er.exc and sorted(er.creates) != sorted(er.tree):
        res.add(PROP, "creates_vs_files", "creates at the seam %s != files found %s" % (sorted(er.creates)[:4], sorted(er.tree)[:4]), **feats)
    # (2) every component of every path is safe
    for p in list(er.reported) + [c for c in er.creates if c not in er.reported]:
        bad = path_problem(p)
        if bad:
            res.add(PROP, "unsafe_component", "%r: component %r is %s" % (p, bad[1], bad[0]), problem=bad[0], **feats)
            break
    if any("(" in p for p in er.reported):
        res.probes["counter_suffix_written"] += 1
    res.steps, res.io_events = obs.steps, obs.io_events
    res.digest = digest_of(obs.event_digest, er.stdout, tree_digest(er.tree), [v.cls for v in res.violations])
    res.state_hash = jhash([obs.fmt, names])
    res.nontrivial = nontrivial
    res.sample = {"fmt": obs.fmt, "stored_names": names[:12], "reported": er.reported[:8]}
    return res
