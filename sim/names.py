"""Seeded generators of hostile sibling-name multisets, and the *statement's* name rules.

The rules here are written from the property text (C05/C06), not copied from the
tool's regular expressions.
"""
from __future__ import annotations

import random
import re
from typing import List, Optional, Tuple

from .core import weighted

AKAI_CHARS = "0123456789 ABCDEFGHIJKLMNOPQRSTUVWXYZ#+-."

# C06: word characters, space, '-', '.', '#', '(', ')'; begins with a word character; no trailing space or dot
_COMPONENT = re.compile(r"^\w[\w \-.#()]*$", re.ASCII)


def component_ok(c: str) -> Optional[str]:
    if c == "":
        return "empty"
    if not _COMPONENT.match(c):
        if not re.match(r"\w", c[0], re.ASCII):
            return "bad_first_char"
        return "bad_char"
    if c[-1] in " .":
        return "trailing_space_or_dot"
    return None


def path_problem(path: str) -> Optional[Tuple[str, str]]:
    """First offending component of a '/'-joined relative path, or None."""
    if path.startswith("/"):
        return ("absolute", path)
    for comp in path.split("/"):
        if comp in ("..", "."):
            return ("dot_component", comp)
        p = component_ok(comp)
        if p:
            return (p, comp)
    return None


# C05: "names differ only in a final L/R preceded by spaces or hyphens"
_LR = re.compile(r"^(.*?)([ \-]+)([LR])$")


def lr_split(name: str):
    """(stem, separator, side) or None, on the name with trailing blanks removed."""
    m = _LR.match(name.rstrip(" "))
    if not m:
        return None
    return m.group(1), m.group(2), m.group(3)


# --------------------------------------------------------------------------

def akai_name_set(rng: random.Random, k: int, *, pairs: bool = True) -> List[str]:
    """k sibling names over the AKAI alphabet (<=12 chars), biased to near-collisions."""
    stems = [rng.choice(["A", "AB", "PAD", "A.", "A-", "A+B", "A B", "A  B", "KICK 1", "X#", "..", ".", "-", "1", "A 2", "L", "R", ""])
             for _ in range(3)]
    out: List[str] = []
    if k >= 4 and rng.random() < 0.1:
        # two groups of duplicates whose generated "(n)" names may coincide
        st = rng.choice(["AB", "A", "X1"])
        a, b = rng.sample([st + " L", st + "  L", st + " L.", st + "-L", st + " - L", st + " R", st + "  R"], 2)
        out += [a, a, b, b]
    while len(out) < k:
        r = rng.random()
        stem = rng.choice(stems)
        if pairs and r < 0.35 and k - len(out) >= 2:
            sep = rng.choice([" ", "-", " -", "  ", "- ", " - ", "--"])
            l, rr = (stem + sep + "L")[:12], (stem + sep + "R")[:12]
            both = [l, rr]
            if rng.random() < 0.4:
                both.reverse()
            out += both
        elif r < 0.5:
            out.append(stem[:12])                        # a stem that equals another sample's full name
        elif r < 0.62 and out:
            out.append(rng.choice(out))                  # exact duplicate
        elif r < 0.75 and out:
            base = rng.choice(out)                       # differs only in punctuation / blanks
            out.append(base.replace(" ", rng.choice(["+", "  ", "."]))[:12] if " " in base else (base + rng.choice([".", " .", "+", "#"]))[:12])
        elif r < 0.85:
            out.append((stem + " " + rng.choice(["L", "R", "-L", "-R", "L.", "R ", "LL", "2", "+L"]))[:12])
        else:
            out.append("".join(rng.choice(AKAI_CHARS) for _ in range(rng.randint(0, 12))))
    rng.shuffle(out) if rng.random() < 0.5 else None
    return [n.upper() for n in out[:k]]


ASCII_POOL = ["A", "B", "a", " ", "-", "L", "R", ".", "/", "\\", "..", ":", "'", '"', "`", "(", ")", "2", "\x01", "\x7f", "#", "_", "~", "*",
              "?", "<", ">", "|", "\t", "=", "@", "&", "+", "%", "$", "!", ",", ";", "[", "]", "{", "}", "^"]


def ascii_name(rng: random.Random, maxlen: int = 16) -> str:
    r = rng.random()
    if r < 0.15:
        return rng.choice(["..", ".", "/", "../x", "..\\x", "/etc/x", "a/b", "a\\b", "C:\\x", "con", "NUL", "", " ", "~", "-", "--", "(2)", "A (2)", "A.",
                           "A. ", ".A", " A", "A:", ":A", "'A'", '"A"', "A/../B", "....", "A..", "-L", "L", "R", " L", " - R"])[:maxlen]
    return "".join(rng.choice(ASCII_POOL) for _ in range(rng.randint(0, 8)))[:maxlen]


def ascii_name_set(rng: random.Random, k: int, *, pairs: bool = True, maxlen: int = 16) -> List[str]:
    stems = [rng.choice(["A", "AB", "Pad", "A.", "A/", "..", "A (2)", "", "a b", "A-", "x/y", "A:B", "L", "'q'"]) for _ in range(3)]
    out: List[str] = []
    if k >= 4 and rng.random() < 0.1:
        st = rng.choice(["AB", "A", "x/y", "A:"])
        a, b = rng.sample([st + " L", st + "  L", st + " L.", st + "-L", st + " - L", st + " 'L", st + " R", st + "/ L"], 2)
        out += [a, a, b, b]
    while len(out) < k:
        r = rng.random()
        stem = rng.choice(stems)
        if pairs and r < 0.3 and k - len(out) >= 2:
            sep = rng.choice([" ", "-", " -", "  ", "- ", " - ", "--", "_"])
            both = [(stem + sep + "L")[:maxlen], (stem + sep + "R")[:maxlen]]
            if rng.random() < 0.4:
                both.reverse()
            out += both
        elif r < 0.42:
            out.append(stem[:maxlen])
        elif r < 0.52 and out:
            out.append(rng.choice(out))
        elif r < 0.66 and out:
            base = rng.choice(out)
            out.append((base + rng.choice([".", " ", "'", '"', "/", ":", " (2)", "(2)", " (3)", "*"]))[:maxlen])
        elif r < 0.76:
            out.append((stem + rng.choice([" L", " R", "-L", "-R", " (2) L", " (2) R", " (2)", " L (2)"]))[:maxlen])
        elif r < 0.82 and out:
            out.append((rng.choice(out).rstrip() + rng.choice([".wav", ".WAV", ".wav ", ".Wav"]))[:maxlen])
        else:
            out.append(ascii_name(rng, maxlen))
    if rng.random() < 0.5:
        rng.shuffle(out)
    return out[:k]
