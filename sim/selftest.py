"""./check selftest --determinism [--n N] [--props C01,C02]   large-sample determinism proof
   ./check selftest --mutants [ids...]                         scripted sensitivity mutants (tools/run_mutants.py)

Determinism: for every property, N run indices are executed in four fresh interpreters (two PYTHONHASHSEED values x
two process layouts: all indices in one process / one process per chunk of 4) and the per-run digests are compared.
"""
from __future__ import annotations

import json
import os
import subprocess
import sys
from concurrent.futures import ThreadPoolExecutor

VERIF = os.path.dirname(os.path.dirname(os.path.abspath(__file__)))


def _digests(prop: str, idxs, hashseed: str, seed: int):
    env = dict(os.environ, PYTHONHASHSEED=hashseed)
    p = subprocess.run([sys.executable, "-B", os.path.join(VERIF, "run_check.py"), prop, "--seed", str(seed), "--digest-indices", ",".join(map(str, idxs))],
                       capture_output=True, text=True, env=env, timeout=3600)
    line = [l for l in p.stdout.split("\n") if l.startswith("DIGESTS ")]
    if not line:
        raise RuntimeError("no digests for %s: %s %s" % (prop, p.stdout[-500:], p.stderr[-500:]))
    return json.loads(line[0][8:])


def main(argv) -> int:
    if "--mutants" in argv:
        ids = [a for a in argv if not a.startswith("--")]
        return subprocess.call([os.path.join(VERIF, "tools", "run_mutants.py")] + ids)
    from sim.driver import CLAIMED
    from sim.core import DEFAULT_SEED
    n = 40
    props = CLAIMED
    seed = int(os.environ.get("VERIF_SEED", DEFAULT_SEED))
    for i, a in enumerate(argv):
        if a == "--n":
            n = int(argv[i + 1])
        if a == "--props":
            props = argv[i + 1].split(",")
    bad = 0
    for prop in props:
        mod = __import__("sim.props.%s" % prop.lower(), fromlist=["RUNS"])
        total = mod.RUNS["quick"]
        step = max(1, total // n)
        idxs = list(range(0, total, step))[:n]
        chunks = [idxs[i:i + 4] for i in range(0, len(idxs), 4)]
        with ThreadPoolExecutor(max_workers=16) as ex:
            a = ex.submit(_digests, prop, idxs, "0", seed)
            b = ex.submit(_digests, prop, idxs, "12345", seed)
            cs = [ex.submit(_digests, prop, c, "7", seed) for c in chunks]
            da, db = a.result(), b.result()
            dc = {}
            for c in cs:
                dc.update(c.result())
        mism = [i for i in idxs if not (da[str(i)] == db[str(i)] == dc[str(i)])]
        print("DETERMINISM %s: %d indices x 3 fresh interpreters (hash seeds 0/12345/7, one process vs chunks of 4): %s" % (
            prop, len(idxs), "identical" if not mism else "MISMATCH at %s" % mism[:10]))
        sys.stdout.flush()
        bad += len(mism)
    if bad:
        print("HARNESS-ERROR determinism self-test failed")
        return 2
    return 0
