"""Generic scenario minimiser (greedy delta debugging over a JSON document).

A candidate is accepted iff ``still_fails(candidate)`` — the same violation
class of the same property still occurs.  Candidates that cannot be
materialised raise ScenarioInvalid inside ``still_fails`` and are rejected.
The order follows DESIGN 3.5: drop list elements (ops, faults, model parts)
first, then simplify scalars (ints toward 0 / small, strings toward short safe
names, policies toward "contiguous").
"""
from __future__ import annotations

import copy
import time
from typing import Any, Callable, Iterable, List, Tuple

Path = Tuple[Any, ...]


def _get(doc, path: Path):
    for k in path:
        doc = doc[k]
    return doc


def _set(doc, path: Path, value):
    for k in path[:-1]:
        doc = doc[k]
    doc[path[-1]] = value


def _walk(doc, path: Path = ()):
    yield path, doc
    if isinstance(doc, dict):
        for k in sorted(doc):
            yield from _walk(doc[k], path + (k,))
    elif isinstance(doc, list):
        for i, v in enumerate(doc):
            yield from _walk(v, path + (i,))


def _is_record(v) -> bool:
    """['seek', 5, 0]-style tuples are atoms for element deletion."""
    return len(v) <= 6 and isinstance(v[0], str) and all(not isinstance(x, (list, dict)) for x in v)


class Shrinker:
    def __init__(self, still_fails: Callable[[dict], bool], *, max_attempts: int = 400,
                 max_seconds: float = 60.0, frozen: Iterable[str] = (),
                 simple_values: dict = None) -> None:
        self.still_fails = still_fails
        self.max_attempts = max_attempts
        self.deadline = time.monotonic() + max_seconds
        self.attempts = 0
        self.accepted = 0
        self.frozen = set(frozen)              # dict keys whose subtree is never touched
        self.simple_values = simple_values or {}   # key -> list of simpler values to try

    def _budget_left(self) -> bool:
        return self.attempts < self.max_attempts and time.monotonic() < self.deadline

    def _try(self, cand: dict) -> bool:
        if not self._budget_left():
            return False
        self.attempts += 1
        try:
            ok = self.still_fails(cand)
        except Exception:      # noqa: BLE001 - an unbuildable candidate is simply rejected
            ok = False
        if ok:
            self.accepted += 1
        return ok

    def _frozen_path(self, path: Path) -> bool:
        return any(isinstance(k, str) and k in self.frozen for k in path)

    def run(self, scenario: dict) -> dict:
        cur = copy.deepcopy(scenario)
        progress = True
        while progress and self._budget_left():
            progress = False
            # 1. remove list chunks / elements, longest lists first
            lists = [(p, v) for p, v in _walk(cur) if isinstance(v, list) and len(v) > 0 and not self._frozen_path(p)
                     and not _is_record(v)]
            lists.sort(key=lambda pv: -len(pv[1]))
            for p, _ in lists:
                try:
                    lst = _get(cur, p)
                except (KeyError, IndexError, TypeError):
                    continue
                if not isinstance(lst, list):
                    continue
                n = len(lst)
                chunk = max(1, n // 2)
                while chunk >= 1 and self._budget_left():
                    i = 0
                    removed_any = False
                    while i < len(lst) and self._budget_left():
                        cand = copy.deepcopy(cur)
                        l2 = _get(cand, p)
                        del l2[i:i + chunk]
                        if self._try(cand):
                            cur = cand
                            lst = _get(cur, p)
                            progress = removed_any = True
                        else:
                            i += chunk
                    if chunk == 1:
                        break
                    chunk = max(1, chunk // 2)
            # 2. scalars
            for p, v in list(_walk(cur)):
                if not self._budget_left():
                    break
                if not p or self._frozen_path(p):
                    continue
                key = p[-1]
                try:
                    v = _get(cur, p)
                except (KeyError, IndexError, TypeError):
                    continue
                cands: List[Any] = []
                if isinstance(key, str) and key in self.simple_values:
                    cands = [x for x in self.simple_values[key] if x != v]
                elif isinstance(v, bool):
                    cands = [False] if v else []
                elif isinstance(v, int):
                    if v != 0:
                        cands = [0]
                        if abs(v) > 1:
                            cands += [v // 2, v - 1 if v > 0 else v + 1]
                elif isinstance(v, str) and len(v) > 1 and key in ("name", "title"):
                    cands = [v[:1], v[: len(v) // 2]]
                for c in cands:
                    if c == v:
                        continue
                    cand = copy.deepcopy(cur)
                    _set(cand, p, c)
                    if self._try(cand):
                        cur = cand
                        progress = True
                        break
        return cur
