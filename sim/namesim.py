"""Shared workload for C05 / C06 (and C04): images whose directory names are hostile.

``gen(rng, cdda_ok)`` -> scenario; ``execute(sc)`` -> Observation (export result,
the samples of every directory with their attributable PCM, seam events).
"""
from __future__ import annotations

import random
from dataclasses import dataclass, field
from typing import Dict, List, Optional, Tuple

from .core import ScenarioInvalid, weighted
from .model import akai as A
from .model import cdda as C
from .model import roland as R
from .names import akai_name_set, ascii_name, ascii_name_set
from .seams import Sandbox, SimFile, StepClock, VirtualFS, knobs
from . import tool


@dataclass
class SampleRef:
    sid: str                 # unique id
    directory: Tuple[str, ...]   # raw names of the enclosing directories
    name: str                # raw stored name
    pcm: bytes


@dataclass
class Observation:
    fmt: str
    er: tool.ExportResult
    samples: List[SampleRef]
    image_digest: str
    event_digest: str
    steps: int
    io_events: int
    open_exc: Optional[str] = None
    ls_counts: Dict[Tuple[str, ...], int] = field(default_factory=dict)
    siblings: Dict[Tuple[str, ...], List[str]] = field(default_factory=dict)   # names of non-sample siblings per directory


def gen(rng: random.Random, *, cdda_ok: bool = True, pairs: bool = True) -> dict:
    fmt = weighted(rng, [("akai", 5), ("roland", 3), ("cdda", 2 if cdda_ok else 0)])
    if fmt == "akai":
        parts = []
        for pi in range(weighted(rng, [(1, 5), (2, 1)])):
            vols = []
            nv = rng.randint(1, 3)
            vnames = akai_name_set(rng, nv, pairs=False) if rng.random() < 0.6 else ["V%d" % i for i in range(nv)]
            for vi in range(nv):
                k = rng.randint(1, 7)
                names = akai_name_set(rng, k, pairs=pairs)
                files = []
                pair_len: Dict[str, int] = {}
                for fi, nm in enumerate(names):
                    n = rng.randint(4, 300)
                    from .names import lr_split
                    sp = lr_split(nm)
                    if sp and rng.random() < 0.7:
                        n = pair_len.setdefault(sp[0] + sp[1], n)     # equal-length halves, usually
                    if rng.random() < 0.12:
                        files.append({"kind": "program", "name": nm, "ftype": 0xF0, "kgs": [{"next": 0, "zones": [["X", 0, 127]]}],
                                      "policy": "contiguous", "seed": 0})
                    else:
                        files.append({"kind": "sample", "name": nm, "ftype": rng.choice([0xF3, 0x73]), "key": "n%d.%d.%d.%d" % (rng.getrandbits(20), pi, vi, fi),
                                      "n": n, "typ": 3, "rate": rng.choice([44100, 22050]), "policy": rng.choice(["contiguous", "random"]),
                                      "seed": rng.getrandbits(20)})
                        if rng.random() < 0.25:
                            files[-1]["silent_tail"] = rng.choice([1, 1, 2, 8])      # a recording that ends in digital silence
                vols.append({"name": vnames[vi], "vtype": 3, "dir": {"mode": "chain", "policy": "contiguous", "seed": 0}, "files": files})
            parts.append({"spare": 2, "volumes": vols})
        return {"fmt": "akai", "model": {"partitions": parts, "trailing": rng.choice([0, 0, 700, 8192])}, "block": rng.choice([4096, 4096, 64, 510])}
    if fmt == "roland":
        ns = rng.randint(1, 7)
        names = ascii_name_set(rng, ns, pairs=pairs)
        samples = []
        pair_len: Dict[str, int] = {}
        from .names import lr_split
        for i, nm in enumerate(names):
            n = rng.randint(4, 300)
            sp = lr_split(nm)
            if sp and rng.random() < 0.7:
                n = pair_len.setdefault(sp[0] + sp[1], n)
            mode = rng.choice([0, 2, 2, 5])
            samples.append({"name": nm, "key": "q%d.%d" % (rng.getrandbits(20), i), "n": n, "points": [[0, 0], [0, 0], [n - 1, 0], [0, 0], [n - 1, 0]],
                            "loop_mode": mode, "cluster_top": 0, "freq": rng.randint(0, 5), "orig_key": 60, "policy": "contiguous", "seed": 0})
            if rng.random() < 0.25:
                samples[-1]["silent_tail"] = rng.choice([1, 1, 2, 8])
        nperf = weighted(rng, [(1, 3), (2, 2), (3, 1)])
        partials, patches, perfs = [], [], []
        pnames = ascii_name_set(rng, nperf, pairs=False)
        for p in range(nperf):
            mine = list(range(ns)) if p == 0 else rng.sample(range(ns), rng.randint(1, ns))
            # one or two patches per performance, over disjoint samples: all of them are listed and exported into ONE directory,
            # so names must be unique across the patches of a performance, not only within one
            groups = [mine]
            if len(mine) >= 2 and rng.random() < 0.45:
                cut = rng.randint(1, len(mine) - 1)
                groups = [mine[:cut], mine[cut:]]
            my_patches = []
            for grp in groups:
                pl = []
                for i in range(0, len(grp), 4):
                    partials.append({"name": ascii_name(rng) or "pt", "samples": grp[i:i + 4]})
                    pl.append(len(partials) - 1)
                patches.append({"name": rng.choice([ascii_name(rng), names[0], "Patch"]), "partials": pl})
                my_patches.append(len(patches) - 1)
            perfs.append({"name": pnames[p], "patches": my_patches})
        nv = rng.randint(0, 2)
        vnames = ascii_name_set(rng, nv, pairs=False)
        vols = [{"name": vnames[v], "performances": rng.sample(range(nperf), rng.randint(1, nperf))} for v in range(nv)]
        return {"fmt": "roland", "model": {"fat_version": 1, "spare": 1, "samples": samples, "partials": partials, "patches": patches,
                                          "performances": perfs, "volumes": vols}, "block": 4096}
    # cdda: hostile TITLEs
    nt = rng.randint(1, 5)
    titles = ascii_name_set(rng, nt, pairs=False, maxlen=20)
    tracks = []
    sector = 0
    for i in range(nt):
        t = titles[i].replace('"', "'") if rng.random() < 0.7 else titles[i]
        t = t.replace("\n", " ").replace("\r", " ")
        mm, ss, ff = C.msf(sector)
        tracks.append({"num": i + 1, "mode": "AUDIO", "title": None if rng.random() < 0.15 else t, "indices": [[1, mm, ss, ff]]})
        sector += rng.randint(1, 3)
    return {"fmt": "cdda", "model": {"bin_name": "d.bin", "bin_key": "c%d" % rng.getrandbits(24), "bin_len": sector * C.SECTOR + rng.choice([0, 3, 500]),
                                     "tracks": tracks}, "block": 4096,
            # a library user may look at the freshly opened image (children / get_info) before asking for an export
            "touch_first": rng.random() < 0.35}


def sample_refs(sc: dict) -> List[SampleRef]:
    fmt, m = sc["fmt"], sc["model"]
    out: List[SampleRef] = []
    if fmt == "akai":
        for pi, p in enumerate(m["partitions"]):
            for vi, v in enumerate(p["volumes"]):
                for fi, f in enumerate(v["files"]):
                    if f["kind"] == "sample":
                        out.append(SampleRef("a%d.%d.%d" % (pi, vi, fi), (A.partition_letter(pi), "v%d:%s" % (vi, v["name"])), f["name"], A.expected_pcm(f)))
    elif fmt == "roland":
        vols = [("v%d:%s" % (i, v["name"]), sorted(set(v["performances"]))) for i, v in enumerate(m["volumes"])]
        referenced = set()
        for _, ps in vols:
            referenced.update(ps)
        if len(referenced) < len(m["performances"]):
            vols.append(("orphans", R.orphan_performances(m)))
        for vn, ps in vols:
            for p in ps:
                seen = set()
                for sidx in R.referenced_samples(m, p):
                    if sidx in seen:
                        continue
                    seen.add(sidx)
                    sm = m["samples"][sidx]
                    out.append(SampleRef("r%s.%d.%d" % (vn, p, sidx), (vn, "p%d:%s" % (p, m["performances"][p]["name"])), sm["name"], R.expected_pcm(sm)))
    else:
        for i, (title, pcm) in enumerate(C.expected_tracks(m)):
            out.append(SampleRef("t%d" % i, (), title, pcm))
    return out


def other_siblings(sc: dict) -> Dict[Tuple[str, ...], List[str]]:
    """Programs take part in the de-duplication of names although they are not exported."""
    fmt, m = sc["fmt"], sc["model"]
    out: Dict[Tuple[str, ...], List[str]] = {}
    if fmt == "akai":
        for pi, p in enumerate(m["partitions"]):
            for vi, v in enumerate(p["volumes"]):
                out[(A.partition_letter(pi), "v%d:%s" % (vi, v["name"]))] = [f["name"] for f in v["files"] if f["kind"] != "sample"]
    elif fmt == "roland":
        vols = [("v%d:%s" % (i, v["name"]), sorted(set(v["performances"]))) for i, v in enumerate(m["volumes"])]
        vols.append(("orphans", R.orphan_performances(m)))
        for vn, ps in vols:
            for p in ps:
                out[(vn, "p%d:%s" % (p, m["performances"][p]["name"]))] = [m["patches"][i]["name"] for i in m["performances"][p]["patches"]]
    return out


def execute(sc: dict, tag: str = "nm") -> Observation:
    import contextlib
    fmt, m = sc["fmt"], sc["model"]
    cm = contextlib.nullcontext()
    if fmt == "akai":
        img, _ = A.build(m)
        sfs = [SimFile(img)]
        target = sfs[0]
    elif fmt == "roland":
        img, _ = R.build(m)
        sfs = [SimFile(img)]
        target = sfs[0]
    else:
        img = C.bin_bytes(m)
        try:
            cue = C.cue_text(m).encode("ascii")
        except UnicodeEncodeError:
            raise ScenarioInvalid("non-ascii cue")
        binsf = SimFile(img)
        sfs = [binsf]
        vfs = VirtualFS({"/vfs/d.cue": cue, "/vfs/" + m["bin_name"]: binsf})
        cm = vfs.installed()
        target = "/vfs/d.cue"
    with cm, Sandbox(tag) as sb, knobs(sc.get("block", 4096)), StepClock(200_000_000) as clk:
        image, r0 = tool.open_image(target)
        if image is None:
            er = tool.ExportResult(exc=r0.exc, exc_msg=r0.exc_msg, exc_tb=r0.exc_tb)
        else:
            if sc.get("touch_first") and fmt == "cdda":
                try:
                    image.get_info().to_string()
                except Exception:      # noqa: BLE001 - looking must not matter; whatever it does, the export below is judged
                    pass
            if sc.get("ls_first"):
                # the same opened image was listed (root and every first-level item) before it is exported: listing must not matter
                r_ls = tool.run_ls(image, "")
                for row in (tool.parse_ls_table(r_ls.stdout) or [])[:6]:
                    if row and row[0].strip():
                        tool.run_ls(image, row[0].strip())
            er = tool.run_export(image, sb)
            # anything written into the sandbox but outside dest (a '..' escape that stayed inside the sandbox)
            er.stray = sb.stray_files()
    from .core import digest_of
    return Observation(fmt, er, sample_refs(sc), digest_of(img), digest_of([s.event_digest() for s in sfs]), clk.steps,
                       sum(s.io_events for s in sfs), r0.exc, siblings=other_siblings(sc))
