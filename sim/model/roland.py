"""Independent Roland S-7xx disc-image writer and logical model (no smpl_extract import).

Model (plain JSON):
  {"fat_version": 1|2, "spare": k, "disk_name": str,
   "samples":   [{"name","key","n","points":[[addr,fine]*5],"loop_mode","cluster_top","freq","orig_key","policy","seed","end_marker"}],
   "partials":  [{"name","samples":[i,...<=4]}],
   "patches":   [{"name","partials":[i,...]}],
   "performances":[{"name","patches":[i,...]}],
   "volumes":   [{"name","performances":[i,...]}],
   "counts": optional override of the ID-area counters}

Entity i of each kind lives at index i of its directory / parameter area.
"""
from __future__ import annotations

import random
import struct
from dataclasses import dataclass, field
from typing import Dict, List, Optional, Tuple

from ..core import ScenarioInvalid, pcm_bytes

CL = 0x2400
FAT_OFF = 0x80800
FAT_N = 65536
VOL_DIR, PERF_DIR, PATCH_DIR, PART_DIR, SAMP_DIR = 0xA0800, 0xA1800, 0xA5800, 0xAD800, 0xCD800
VOL_PAR, PERF_PAR, PATCH_PAR, PART_PAR, SAMP_PAR = 0x10D800, 0x115800, 0x155800, 0x1D5800, 0x255800
VOL_PSZ, PERF_PSZ, PATCH_PSZ, PART_PSZ, SAMP_PSZ = 0x100, 0x200, 0x200, 0x80, 0x30
DIR_SZ = 0x20
DATA_FAT_OFF = 0x2B1000
FIRST_CLUSTER = 2
FREQS = {0: 48000, 1: 44100, 2: 24000, 3: 22050, 4: 30000, 5: 15000}
POLICIES = ("contiguous", "random", "descending", "head_highest", "ascending", "inner_permuted")
POISON_FREE = 0xDD
POISON_SLACK = 0xEE
POISON_TOP = 0xAB


def s(txt: str, n: int) -> bytes:
    try:
        b = txt.encode("latin-1")
    except UnicodeEncodeError:
        raise ScenarioInvalid("name not encodable")
    return b.ljust(n, b" ")[:n]


def direntry(name: str, ftype: int, fat_entry: int = 0, nclus: int = 0, attrs: int = 0, fwd: int = 0, back: int = 0, link: int = 0) -> bytes:
    return s(name, 16) + bytes([ftype & 0xFF, attrs & 0xFF]) + struct.pack("<HHHIHH", fwd & 0xFFFF, back & 0xFFFF, link & 0xFFFF, 0,
                                                                          fat_entry & 0xFFFF, nclus & 0xFFFF)


@dataclass
class SampleLayout:
    idx: int
    name: str
    chain: List[int]              # all clusters incl. the cluster_top junk clusters
    data_chain: List[int]         # clusters after cluster_top
    dir_off: int
    par_off: int
    clusters_abs: List[int]


@dataclass
class RolandLayout:
    size: int
    nclusters: int
    samples: List[SampleLayout] = field(default_factory=list)
    free: List[int] = field(default_factory=list)
    fat_off: int = FAT_OFF

    def fat_word_off(self, cluster: int) -> int:
        return FAT_OFF + 2 * cluster


def sample_words_needed(sm: dict) -> int:
    return sm["n"]


def build(model: dict) -> Tuple[bytes, RolandLayout]:
    samples = model.get("samples", [])
    need = 0
    plans = []
    for sm in samples:
        if "alias_of" in sm:
            # a second sample living in the *same* cluster chain, further in (its own leading-cluster offset)
            plans.append(None)
            continue
        k = max(1, -(-(2 * sm["n"]) // CL))
        top = sm.get("cluster_top", 0)
        plans.append((k, top))
        need += k + top
    ncl = need + model.get("spare", 0)
    if FIRST_CLUSTER + ncl >= FAT_N - 10:
        raise ScenarioInvalid("too many clusters")
    size = DATA_FAT_OFF + (FIRST_CLUSTER + ncl) * CL
    b = bytearray(size)
    b[DATA_FAT_OFF + FIRST_CLUSTER * CL:] = bytes([POISON_FREE]) * (ncl * CL)
    fat = [0] * FAT_N
    fat[0] = 0xFFFA
    fat[FAT_N - 2] = 0xFFFF
    fat[FAT_N - 1] = 0xFFFE if model.get("fat_version", 1) == 2 else 0xFFFF
    if model.get("fat_version_first"):
        fat[FAT_N - 2], fat[FAT_N - 1] = 0xFFFE, 0xFFFF
    free = list(range(FIRST_CLUSTER, FIRST_CLUSTER + ncl))
    lay = RolandLayout(size, ncl)
    # directory / parameter slot of every entity (default: its position in the model's list).  Volumes are always dense
    # (the tool reads volume slots 0..n-1); everything else may live in any slot of its area.
    limits = {"samples": 0x2000, "partials": 0x1000, "patches": 0x400, "performances": 0x200}
    slot = {}
    for kind, lim in limits.items():
        sl = [e.get("slot", i) for i, e in enumerate(model.get(kind, []))]
        if len(set(sl)) != len(sl) or any(not 0 <= x < lim for x in sl):
            raise ScenarioInvalid("bad %s slots" % kind)
        slot[kind] = sl

    def ref(kind: str, lst):
        return [slot[kind][i] if 0 <= i < len(slot[kind]) else i for i in lst]

    def put(off: int, data: bytes) -> None:
        b[off:off + len(data)] = data

    def alloc(k: int, policy: str, rng: random.Random) -> List[int]:
        nonlocal free
        if k > len(free):
            raise ScenarioInvalid("disk full")
        if policy == "contiguous":
            ch = None
            for a in range(len(free) - k + 1):
                if free[a + k - 1] - free[a] == k - 1:
                    ch = free[a:a + k]
                    break
            if ch is None:
                ch = free[:k]
        elif policy == "inner_permuted":
            ch = None
            for a in range(len(free) - k + 1):
                if free[a + k - 1] - free[a] == k - 1:
                    ch = free[a:a + k]
                    break
            if ch is None:
                ch = free[:k]
            inner = ch[1:-1]
            rng.shuffle(inner)
            ch = ch[:1] + inner + (ch[-1:] if k > 1 else [])
        elif policy == "ascending":
            ch = sorted(rng.sample(free, k))
        elif policy == "descending":
            ch = sorted(rng.sample(free, k), reverse=True)
        elif policy == "head_highest":
            ch = rng.sample(free, k)
            m = max(ch)
            ch.remove(m)
            ch.insert(0, m)
        elif policy == "random":
            ch = rng.sample(free, k)
        else:
            raise ScenarioInvalid("policy")
        st = set(ch)
        free = [c for c in free if c not in st]
        return ch

    # --- samples -----------------------------------------------------------
    for i, sm in enumerate(samples):
        if plans[i] is None:
            j0 = sm["alias_of"]
            if not 0 <= j0 < i or plans[j0] is None:
                raise ScenarioInvalid("alias must follow its owner")
            ch = lay.samples[j0].chain
            top = samples[j0].get("cluster_top", 0) + sm["alias_skip"]
            if top >= len(ch) or sm.get("key_offset", 0) != sm["alias_skip"] * (CL // 2) or sm["key"] != samples[j0]["key"] \
                    or sm["n"] != samples[j0]["n"] - sm["key_offset"] or sm["n"] < 1:
                raise ScenarioInvalid("inconsistent alias")
        else:
            k, top = plans[i]
            rng = random.Random(sm.get("seed", 0))
            ch = alloc(k + top, sm.get("policy", "contiguous"), rng)
            for a, c in zip(ch, ch[1:]):
                fat[a] = c
            fat[ch[-1]] = sm.get("end_marker", 0xFFFF)
            data = sample_words(sm)
            for j, c in enumerate(ch):
                base = DATA_FAT_OFF + c * CL
                if j < top:
                    put(base, bytes([POISON_TOP]) * CL)
                else:
                    chunk = data[(j - top) * CL:(j - top + 1) * CL]
                    put(base, chunk + bytes([POISON_SLACK]) * (CL - len(chunk)))
        dir_off = SAMP_DIR + DIR_SZ * slot["samples"][i]
        par_off = SAMP_PAR + SAMP_PSZ * slot["samples"][i]
        put(dir_off, direntry(sm["name"], sm.get("ftype", 0x44), sm.get("fat_entry", ch[0]), len(ch)))
        pts = b"".join(struct.pack("<I", ((a & 0xFFFFFF) << 8) | (f & 0xFF)) for a, f in sm["points"])
        body = s(sm.get("pname", sm["name"]), 16) + pts + bytes([sm.get("loop_mode", 2) & 0xFF, sm.get("sl_enable", 0) & 0xFF,
                                                                sm.get("sl_tune", 0) & 0xFF, sm.get("rl_tune", 0) & 0xFF]) \
            + struct.pack("<HH", top, len(ch)) + bytes([((sm.get("mode", 0) & 0xF) << 4) | (sm.get("freq", 1) & 0xF),
                                                         sm.get("orig_key", 60) & 0xFF]) + b"\0\0"
        assert len(body) == SAMP_PSZ, len(body)
        put(par_off, body)
        lay.samples.append(SampleLayout(i, sm["name"], ch, ch[top:], dir_off, par_off, [DATA_FAT_OFF + c * CL for c in ch]))

    # --- partials ------------------------------------------------------------
    def sec(x: int, extra=None) -> bytes:
        e = extra or [0] * 9
        return struct.pack("<h", x) + bytes(v & 0xFF for v in e[:9])

    for i, pt in enumerate(model.get("partials", [])):
        put(PART_DIR + DIR_SZ * slot["partials"][i], direntry(pt["name"], 0x43))
        raw4 = list(pt.get("samples", []))
        if pt.get("gaps"):
            # the four sample slots of a partial need not be filled from the front
            slots4 = [-1, -1, -1, -1]
            for pos, smp in zip(pt["gaps"], raw4):
                slots4[pos] = smp
            raw4 = slots4
        sp = [(slot["samples"][x] if 0 <= x < len(slot["samples"]) else x) for x in raw4] + [-1] * 4
        body = s(pt["name"], 16) + sec(sp[0]) + b"\0" * 5 + sec(sp[1]) + b"\0" * 5 + sec(sp[2]) + b"\0" * 5 + sec(sp[3])
        body = body.ljust(PART_PSZ, b"\0")
        assert len(body) == PART_PSZ
        put(PART_PAR + PART_PSZ * slot["partials"][i], body)

    # --- patches ---------------------------------------------------------------
    for i, pa in enumerate(model.get("patches", [])):
        put(PATCH_DIR + DIR_SZ * slot["patches"][i], direntry(pa["name"], 0x42))
        lst = ref("partials", pa.get("partials", []))
        if len(lst) > 88:
            raise ScenarioInvalid("too many partials")
        p = lst + [-1] * (88 - len(lst))
        body = s(pa["name"], 16) + bytes(pa.get("params", [0] * 16))[:16].ljust(16, b"\0") + b"\0" * 224 + struct.pack("<88h", *p) + b"\0" * 0x50
        assert len(body) == PATCH_PSZ, len(body)
        put(PATCH_PAR + PATCH_PSZ * slot["patches"][i], body)

    # --- performances ------------------------------------------------------------
    for i, pf in enumerate(model.get("performances", [])):
        put(PERF_DIR + DIR_SZ * slot["performances"][i], direntry(pf["name"], pf.get("ftype", 0x41)))
        lst = ref("patches", pf.get("patches", []))
        if len(lst) > 32:
            raise ScenarioInvalid("too many patches")
        p = lst + [-1] * (32 - len(lst))
        body = s(pf["name"], 16) + b"\0" * (208 + 16 + 16) + struct.pack("<32h", *p) + b"\0" * 0xC0
        assert len(body) == PERF_PSZ, len(body)
        put(PERF_PAR + PERF_PSZ * slot["performances"][i], body)

    # --- volumes -------------------------------------------------------------------
    for i, vo in enumerate(model.get("volumes", [])):
        put(VOL_DIR + DIR_SZ * i, direntry(vo["name"], 0x40))
        lst = ref("performances", vo.get("performances", []))
        if len(lst) > 64:
            raise ScenarioInvalid("too many performances")
        p = lst + [-1] * (64 - len(lst))
        body = s(vo["name"], 16) + b"\0" * 16 + struct.pack("<64h", *p) + b"\0" * 0x60
        assert len(body) == VOL_PSZ, len(body)
        put(VOL_PAR + VOL_PSZ * i, body)

    # --- ID area --------------------------------------------------------------------
    cnt = model.get("counts") or {}
    ida = struct.pack("<I", 1) + s(model.get("s7xx", "S770 MR25A"), 10) + b"\0\0" + s("", 15) + b"\0" \
        + s(model.get("version_str", "S-770 Hard Disk Ver. 1.00"), 31) + b"\0" + s("Copyright Roland", 31) + b"\0" + b"\0" * 160 \
        + s(model.get("disk_name", "DISK"), 16) + struct.pack(
            "<IHHHHH", 0,
            cnt.get("volumes", len(model.get("volumes", []))) & 0xFFFF,
            cnt.get("performances", len(model.get("performances", []))) & 0xFFFF,
            cnt.get("patches", len(model.get("patches", []))) & 0xFFFF,
            cnt.get("partials", len(model.get("partials", []))) & 0xFFFF,
            cnt.get("samples", len(samples)) & 0xFFFF)
    put(0, ida)
    fat[1] = len(free) & 0xFFFF
    put(FAT_OFF, struct.pack("<%dH" % FAT_N, *fat))
    lay.free = free
    return bytes(b), lay


# --------------------------------------------------------------------------
# reference model
# --------------------------------------------------------------------------

def end_point(sm: dict) -> int:
    pts = sm["points"]
    mode = sm.get("loop_mode", 2)
    return pts[4][0] if mode in (1, 3) else pts[2][0]


def sample_words(sm: dict) -> bytes:
    """All n words of a (non-alias) sample; ``silent_tail`` = k makes the last k words digital silence."""
    off = sm.get("key_offset", 0)                   # an alias sample starts `off` words into its owner's data
    total = off + sm["n"]
    data = pcm_bytes(sm["key"], total)
    k = min(sm.get("silent_tail", 0), max(0, sm["n"] - 4))
    if k:
        data = data[:2 * (total - k)] + bytes(2 * k)
    return data[2 * off:]


def expected_pcm(sm: dict) -> bytes:
    start = sm["points"][0][0]
    end = end_point(sm)
    off = sm.get("key_offset", 0)
    data = sample_words(sm)
    x = data[2 * start:2 * (end + 1)]
    if sm.get("loop_mode", 2) in (5, 6):
        x = b"".join(x[i:i + 2] for i in range(len(x) - 2, -1, -2))
    return x


def expected_rate(sm: dict) -> int:
    return FREQS[sm.get("freq", 1)]


def referenced_samples(model: dict, perf_idx: int) -> List[int]:
    """Sample indices reachable from a performance, in the order the hierarchy lists them (first occurrence)."""
    out: List[int] = []
    pf = model["performances"][perf_idx]
    for pa_i in sorted(set(pf.get("patches", []))):
        if not 0 <= pa_i < len(model.get("patches", [])):
            continue
        pa = model["patches"][pa_i]
        for pt_i in sorted(set(pa.get("partials", []))):
            if not 0 <= pt_i < len(model.get("partials", [])):
                continue
            for s_i in model["partials"][pt_i].get("samples", []):
                if 0 <= s_i < len(model["samples"]):
                    out.append(s_i)
    return out


def orphan_performances(model: dict) -> List[int]:
    ref = set()
    for v in model.get("volumes", []):
        ref.update(v.get("performances", []))
    return [i for i in range(len(model.get("performances", []))) if i not in ref]
