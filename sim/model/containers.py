"""Storage encodings of a disc image (no smpl_extract import).

raw            : the bytes as they are
sectors2352    : MODE1/2352 raw sectors - 12-byte sync, 3-byte address, mode byte 1, 2048 bytes of user data, 288 bytes EDC/ECC
mdx            : Alcohol MDX wrapper - 64-byte header ("MEDIA DESCRIPTOR", version, 0xA9 copyright block, eof) followed by the data
cue            : cue sheet with one data track over either a raw or a 2352 bin
"""
from __future__ import annotations

import struct

SYNC = b"\x00" + b"\xFF" * 10 + b"\x00"
BODY = 2048
RAW = 2352
POISON_PAD = 0xCC


def to_2352(data: bytes, pad_byte: int = POISON_PAD) -> bytes:
    out = bytearray()
    nsec = -(-len(data) // BODY) if data else 0
    for i in range(nsec):
        chunk = data[i * BODY:(i + 1) * BODY]
        if len(chunk) < BODY:
            chunk = chunk + bytes([pad_byte]) * (BODY - len(chunk))
        lba = i + 150
        m, r = divmod(lba, 75 * 60)
        s, f = divmod(r, 75)
        bcd = lambda x: ((x // 10) << 4) | (x % 10)
        out += SYNC + bytes([bcd(m % 100), bcd(s), bcd(f)]) + b"\x01" + chunk + bytes([(0x11 * (i + 1)) & 0xFF or 0x33]) * 288
    return bytes(out)


def to_mdx(data: bytes) -> bytes:
    hdr = b"MEDIA DESCRIPTOR" + b"\x02\x01" + b"\xA9" + b" " * 25 + b"\xFF" * 4 + struct.pack("<Q", 64 + len(data)) + b"\x00" * 8
    assert len(hdr) == 64, len(hdr)
    return hdr + data


def data_cue(bin_name: str, mode: str, kw_case=None) -> str:
    # cue keywords are case-insensitive; some authoring tools write them in lower or title case
    kw = (lambda w: w.lower()) if kw_case == "lower" else ((lambda w: w.title()) if kw_case == "title" else (lambda w: w))
    return '%s "%s" %s\n  %s 01 %s\n    %s 01 00:00:00\n' % (kw("FILE"), bin_name, kw("BINARY"), kw("TRACK"), kw(mode), kw("INDEX"))
