"""Independent AKAI S1000/S3000 disc-image writer and logical model.

Does not import smpl_extract.  The byte layout is the one the tool's construct
declarations describe (partition header 202 B, 100 volume entries of 16 B, SAT of
11386 little-endian words, sectors of 8192 B, 24-byte file entries closed by the
0xD747 marker, 140-byte sample header followed by 16-bit PCM).

Model (plain JSON):

  {"partitions": [ {"spare": k, "volumes": [ {"name", "vtype": 1|3,
        "dir": {"mode": "chain"|"run", "policy", "seed"},
        "files": [ <sample> | <program> | <raw> ] } ], "dirs_last": bool } ],
   "trailing": n}

  sample : {"kind":"sample","name","ftype":0x73|0xF3,"key","n","start","end","rate",
            "typ":1|3,"note","loop_type","cents","semi","loops":[[at,fine,coarse,dur]..],
            "inner": inner name (defaults to name), "policy","seed"}
  program: {"kind":"program","name","ftype":0x70|0xF0,"first":150,"kgs":[{"next":addr,"zones":[[name,lo,hi],..]}], "hdr":{...}}
  raw    : {"kind":"raw","name","ftype":int,"size":n,"key"}
"""
from __future__ import annotations

import random
import struct
from dataclasses import dataclass, field
from typing import Dict, List, Optional, Tuple

from ..core import ScenarioInvalid, pcm_bytes

SECTOR = 8192
SAT_N = 11386
HDR_BYTES = 202
VOL_ENT = 16
N_VOL = 100
SAT_OFF = HDR_BYTES + VOL_ENT * N_VOL            # 1802
HDR_TOTAL = SAT_OFF + 2 * SAT_N                  # 24574
HDR_SECTORS = 3
FILE_ENT = 24
SAMPLE_HDR = 140
SAT_EOF, SAT_FREE, SAT_RES, SAT_RES2 = 0xC000, 0x0000, 0x4000, 0x8000
END_FLAG = 0xD747
MAGIC = b"".join(((3333 * i) & 0xFFFF).to_bytes(2, "little") for i in range(1, 98))

POISON_FREE = 0xDD
POISON_SLACK = 0xEE

_AK: Dict[str, int] = {}
for _i in range(10):
    _AK[chr(ord("0") + _i)] = _i
_AK[" "] = 10
for _i in range(26):
    _AK[chr(ord("A") + _i)] = 11 + _i
_AK["#"] = 37
_AK["+"] = 38
_AK["-"] = 39
_AK["."] = 40
AKAI_ALPHABET = "".join(sorted(_AK, key=_AK.get))

POLICIES = ("contiguous", "ascending", "random", "descending", "head_highest", "head_lowest", "inner_permuted")


def akname(s: str, n: int = 12) -> bytes:
    s = s.ljust(n)[:n]
    try:
        return bytes(_AK[c] for c in s)
    except KeyError as e:
        raise ScenarioInvalid("not an AKAI character: %r" % (e.args[0],))


# --------------------------------------------------------------------------
# file bodies
# --------------------------------------------------------------------------

def sample_pcm(f: dict) -> bytes:
    """All n words of the sample; ``silent_tail`` = k makes the last k words of the played window digital silence."""
    n = f["n"]
    pcm = pcm_bytes(f["key"], n)
    k = f.get("silent_tail", 0)
    if k:
        end = f.get("end", n)
        a = max(f.get("start", 0) + 4, end - k)          # the head stays attributable
        if a < end:
            pcm = pcm[:2 * a] + bytes(2 * (end - a)) + pcm[2 * end:]
    return pcm


def sample_body(f: dict) -> bytes:
    n = f["n"]
    pcm = sample_pcm(f)
    start = f.get("start", 0)
    end = f.get("end", n)
    h = bytearray()
    h += bytes([f.get("typ", 3) & 0xFF, f.get("pad1", 0) & 0xFF, f.get("note", 60) & 0xFF])
    h += akname(f.get("inner", f["name"]))
    h += bytes(f.get("pad4a", [0, 0, 0, 0]))
    h += bytes([f.get("loop_type", 2) & 0xFF])
    h += struct.pack("<bb", f.get("cents", 0), f.get("semi", 0))
    h += bytes(f.get("pad4b", [0, 0, 0, 0]))
    h += struct.pack("<III", f.get("n_stored", n) & 0xFFFFFFFF, start & 0xFFFFFFFF, end & 0xFFFFFFFF)
    loops = f.get("loops") or []
    for k in range(8):
        if k < len(loops):
            at, fine, coarse, dur = loops[k]
        else:
            at = fine = coarse = dur = 0
        h += struct.pack("<IHIH", at & 0xFFFFFFFF, fine & 0xFFFF, coarse & 0xFFFFFFFF, dur & 0xFFFF)
    h += bytes(f.get("pad4c", [0, 0, 0, 0]))
    h += struct.pack("<H", f.get("rate", 44100) & 0xFFFF)
    assert len(h) == SAMPLE_HDR, len(h)
    return bytes(h) + pcm


def zone_bytes(name: str, lo: int, hi: int, extra=None) -> bytes:
    e = extra or [0, 0, 0, 0, 0, 0]
    return akname(name) + bytes([lo & 0xFF, hi & 0xFF]) + struct.pack("<bbbbb", *[_s8(x) for x in e[:5]]) \
        + bytes([e[5] & 0xFF]) + b"\xFF\xFF\x2C\x01"


def _s8(x: int) -> int:
    x &= 0xFF
    return x - 256 if x > 127 else x


def keygroup_bytes(kg: dict) -> bytes:
    zones = kg.get("zones", [])
    z = b"".join(zone_bytes(*zz) for zz in zones)
    z += (akname("") + bytes([0, 127, 0, 0, 0, 0, 0, 0]) + b"\xFF\xFF\x2C\x01") * (4 - len(zones))
    p = kg.get("params") or ([24, 127] + [0] * 7 + [0] * 8 + [0] * 8 + [0, 0, 1])
    assert len(p) == 28, len(p)
    body = bytes([kg.get("block_id", 2)]) + struct.pack("<H", kg.get("next", 0) & 0xFFFF) \
        + bytes(x & 0xFF for x in p) + bytes([4]) + b"\xFF\xFF" + z \
        + bytes(x & 0xFF for x in kg.get("tail", [0, 0])) + bytes([1] * 4) + bytes(4) + struct.pack("<4h", 0, 0, 0, 0) \
        + bytes(x & 0xFF for x in kg.get("tail2", [0, 0]))
    assert len(body) == 150, len(body)
    return body


def program_body(f: dict) -> bytes:
    kgs = f.get("kgs", [])
    first = f.get("first", 150)
    hp = f.get("hdr") or {}
    fields = [hp.get("midi_prog", 0), hp.get("midi_ch", 0), hp.get("poly", 15), hp.get("prio", 1),
              hp.get("low", 24), hp.get("high", 127), hp.get("oct", 0), hp.get("aux", 255),
              hp.get("mixlvl", 99), hp.get("mixpan", 0), hp.get("vol", 80), hp.get("v2v", 20), 0, 0,
              50, 0, 0, 0, 50, 0, 0, 30, 0, 0, 2, 0, 0, hp.get("nkg", len(kgs)), 0]
    h = bytes([hp.get("id", 1)]) + struct.pack("<H", first & 0xFFFF) + akname(f.get("inner", f["name"])) \
        + bytes(x & 0xFF for x in fields) + bytes(12) \
        + bytes([0, 0, 0, 1, 0, hp.get("reassign", 0), 10, 10, 10, 0, 0, 0, 0, 0, 1, 0])
    assert len(h) == 72, len(h)
    body = bytearray(h.ljust(max(first, 72), b"\0"))
    # keygroups are placed at the addresses their predecessor names
    addr = first
    for i, kg in enumerate(kgs):
        kb = keygroup_bytes(kg)
        if len(body) < addr + 150:
            body += b"\0" * (addr + 150 - len(body))
        body[addr:addr + 150] = kb
        addr = kg.get("next", 0) or (addr + 150)
    return bytes(body)


def raw_body(f: dict) -> bytes:
    return pcm_bytes(f["key"], (f["size"] + 1) // 2)[:f["size"]]


def file_body(f: dict) -> bytes:
    k = f["kind"]
    if k == "sample":
        return sample_body(f)
    if k == "program":
        return program_body(f)
    if k == "raw":
        return raw_body(f)
    raise ScenarioInvalid("unknown file kind %r" % k)


# --------------------------------------------------------------------------
# layout description returned to the harness
# --------------------------------------------------------------------------

@dataclass
class FileLayout:
    part: int
    vol: int
    idx: int
    name: str
    kind: str
    chain: List[int]               # partition-relative sectors, in chain order
    size: int                      # bytes of the file body
    entry_off: int                 # absolute offset of the 24-byte directory entry
    sectors_abs: List[int]         # absolute byte offset of each chain sector


@dataclass
class VolumeLayout:
    part: int
    idx: int
    name: str
    entry_off: int                 # absolute offset of the 16-byte volume entry
    dir_chain: List[int]
    dir_abs: List[int]
    dir_mode: str
    files: List[FileLayout] = field(default_factory=list)


@dataclass
class PartitionLayout:
    idx: int
    base: int
    nsect: int
    sat_off: int                   # absolute offset of SAT word 0
    volumes: List[VolumeLayout] = field(default_factory=list)
    free: List[int] = field(default_factory=list)


@dataclass
class AkaiLayout:
    partitions: List[PartitionLayout]
    size: int

    def files(self):
        for p in self.partitions:
            for v in p.volumes:
                for f in v.files:
                    yield p, v, f


# --------------------------------------------------------------------------
# allocator
# --------------------------------------------------------------------------

class _Alloc:
    def __init__(self, nsect: int) -> None:
        self.free = list(range(HDR_SECTORS, nsect))

    def take(self, k: int, policy: str, rng: random.Random) -> List[int]:
        free = self.free
        if k > len(free):
            raise ScenarioInvalid("partition full")
        if policy == "contiguous":
            fs = free  # kept sorted
            for a in range(len(fs) - k + 1):
                if fs[a + k - 1] - fs[a] == k - 1:
                    ch = fs[a:a + k]
                    break
            else:
                ch = fs[:k]          # fragmented disk: first fit, ascending
        elif policy == "inner_permuted":
            # a gap-free range whose first and last sector stay in place while the interior is linked out of order
            fs = free
            ch = None
            for a in range(len(fs) - k + 1):
                if fs[a + k - 1] - fs[a] == k - 1:
                    ch = fs[a:a + k]
                    break
            if ch is None:
                ch = fs[:k]
            inner = ch[1:-1]
            rng.shuffle(inner)
            ch = ch[:1] + inner + (ch[-1:] if k > 1 else [])
        elif policy == "inner2_permuted":
            # as above, but the first two and the last two sectors stay in place: also the run of 'middle' sectors of a
            # whole-file read starts and ends where an ascending run would (not in POLICIES: chosen explicitly)
            fs = free
            ch = None
            for a in range(len(fs) - k + 1):
                if fs[a + k - 1] - fs[a] == k - 1:
                    ch = fs[a:a + k]
                    break
            if ch is None:
                ch = fs[:k]
            if k >= 6:
                inner = ch[2:-2]
                for _ in range(4):
                    rng.shuffle(inner)
                    if inner != sorted(inner):
                        break
                ch = ch[:2] + inner + ch[-2:]
        elif policy == "ascending":
            ch = sorted(rng.sample(free, k))
        elif policy == "descending":
            ch = sorted(rng.sample(free, k), reverse=True)
        elif policy == "random":
            ch = rng.sample(free, k)
        elif policy == "head_highest":
            ch = rng.sample(free, k)
            m = max(ch)
            ch.remove(m)
            ch.insert(0, m)
        elif policy == "head_lowest":
            ch = rng.sample(free, k)
            m = min(ch)
            ch.remove(m)
            ch.insert(0, m)
        else:
            raise ScenarioInvalid("unknown policy %r" % policy)
        s = set(ch)
        self.free = [x for x in free if x not in s]
        return ch

    def take_run(self, k: int, rng: random.Random, start_choices: int = 4) -> List[int]:
        """A run of k consecutive sectors whose successor is *not* going to be
        handed out as another reserved run start (we also remove the sector
        after the run from later run allocation by keeping a guard set)."""
        fs = self.free
        runs = []
        for a in range(len(fs) - k + 1):
            if fs[a + k - 1] - fs[a] == k - 1:
                runs.append(a)
        if not runs:
            raise ScenarioInvalid("no run of %d" % k)
        a = runs[rng.randrange(min(len(runs), max(1, start_choices) * 8))] if len(runs) > 1 else runs[0]
        ch = fs[a:a + k]
        s = set(ch)
        self.free = [x for x in fs if x not in s]
        return ch


def sectors_needed(nbytes: int) -> int:
    return max(1, -(-nbytes // SECTOR))


# --------------------------------------------------------------------------
# serialiser
# --------------------------------------------------------------------------

def build(model: dict) -> Tuple[bytes, AkaiLayout]:
    parts = model.get("partitions", [])
    out = bytearray()
    playouts: List[PartitionLayout] = []
    for pi, part in enumerate(parts):
        base = len(out)
        img, pl = _build_partition(pi, part, base)
        out += img
        playouts.append(pl)
    trailing = model.get("trailing", 0)
    if trailing:
        out += bytes([0xCC]) * trailing
    return bytes(out), AkaiLayout(playouts, len(out))


def _build_partition(pi: int, part: dict, base: int) -> Tuple[bytes, PartitionLayout]:
    vols = part.get("volumes", [])
    if len(vols) > N_VOL:
        raise ScenarioInvalid("too many volumes")
    bodies: List[List[bytes]] = []
    need = HDR_SECTORS
    for v in vols:
        bl = [file_body(f) for f in v.get("files", [])]
        bodies.append(bl)
        need += sectors_needed(FILE_ENT * (len(bl) + len(v.get("ghosts", [])) + len(v.get("after_end", [])) + 1))
        need += sum(sectors_needed(len(b)) for b in bl)
    # one guard sector per reserved-run directory so that a run is always
    # followed by a non-reserved sector
    n_runs = sum(1 for v in vols if v.get("dir", {}).get("mode") == "run")
    nsect = part.get("nsect") or (need + n_runs + part.get("spare", 0))
    if nsect > SAT_N or nsect < need + n_runs:
        raise ScenarioInvalid("bad partition size")
    sat = [SAT_FREE] * SAT_N
    for i in range(HDR_SECTORS):
        sat[i] = SAT_RES
    img = bytearray([POISON_FREE]) * (nsect * SECTOR)
    al = _Alloc(nsect)
    pl = PartitionLayout(pi, base, nsect, base + SAT_OFF)

    def link(ch: List[int]) -> None:
        for a, b in zip(ch, ch[1:]):
            sat[a] = b
        sat[ch[-1]] = SAT_EOF

    def put(ch: List[int], data: bytes) -> None:
        for j, s in enumerate(ch):
            chunk = data[j * SECTOR:(j + 1) * SECTOR]
            img[s * SECTOR:s * SECTOR + len(chunk)] = chunk
            if len(chunk) < SECTOR:
                img[s * SECTOR + len(chunk):(s + 1) * SECTOR] = bytes([POISON_SLACK]) * (SECTOR - len(chunk))

    # reserved-run directories first (they need contiguity and a guard)
    dir_chains: List[Optional[List[int]]] = [None] * len(vols)
    guards = set()
    # sector 3 must not start a run (it would merge with the header run 0..2)
    for vi, v in enumerate(vols):
        d = v.get("dir", {})
        if d.get("mode") == "run":
            rng = random.Random(d.get("seed", 0))
            k = sectors_needed(FILE_ENT * (len(bodies[vi]) + len(v.get("ghosts", [])) + len(v.get("after_end", [])) + 1))
            # take k+1 consecutive, last is the guard (returned to the pool but
            # never used as a run start or a run member)
            saved = list(al.free)
            cand = [x for x in saved if x != HDR_SECTORS and x not in guards]
            tmp = _Alloc(0)
            tmp.free = cand
            ch = tmp.take_run(k + 1, rng)
            run, guard = ch[:k], ch[k]
            # the sector before the run must not be a reserved sector either
            # (runs are only ever *read* from their first sector, so a preceding
            # run would swallow this one only for its own reader; keep them apart)
            guards.add(guard)
            if run[0] - 1 >= HDR_SECTORS:
                guards.add(run[0] - 1)
            s = set(run)
            al.free = [x for x in saved if x not in s]
            for x in run:
                sat[x] = SAT_RES2 if d.get("v2") else SAT_RES
            dir_chains[vi] = run
    # guard sectors may hold ordinary file data, but not reserved runs: enforce
    for vi, v in enumerate(vols):
        if dir_chains[vi] is not None:
            for x in dir_chains[vi]:
                if x in guards:
                    raise ScenarioInvalid("run overlaps a guard")

    dirs_last = part.get("dirs_last", False)

    def alloc_dir(vi: int) -> None:
        v = vols[vi]
        if dir_chains[vi] is None:
            d = v.get("dir", {})
            rng = random.Random(d.get("seed", 0))
            k = sectors_needed(FILE_ENT * (len(bodies[vi]) + len(v.get("ghosts", [])) + len(v.get("after_end", [])) + 1))
            ch = al.take(k, d.get("policy", "contiguous"), rng)
            link(ch)
            dir_chains[vi] = ch

    if not dirs_last:
        for vi in range(len(vols)):
            alloc_dir(vi)
    file_chains: List[List[List[int]]] = []
    for vi, v in enumerate(vols):
        fc = []
        for fi, f in enumerate(v.get("files", [])):
            rng = random.Random(f.get("seed", 0))
            ch = al.take(sectors_needed(len(bodies[vi][fi])), f.get("policy", "contiguous"), rng)
            link(ch)
            put(ch, bodies[vi][fi])
            fc.append(ch)
        file_chains.append(fc)
    if dirs_last:
        for vi in range(len(vols)):
            alloc_dir(vi)

    vent = bytearray()
    for vi, v in enumerate(vols):
        dch = dir_chains[vi]
        vl = VolumeLayout(pi, vi, v["name"], base + HDR_BYTES + VOL_ENT * vi, dch,
                          [base + s * SECTOR for s in dch], v.get("dir", {}).get("mode", "chain"))
        table = bytearray()
        ghosts = sorted(v.get("ghosts", []), key=lambda g: g[0])

        def emit_ghosts(upto):
            # entries of deleted files: start sector 0 marks the slot as unused, the rest of the entry is stale
            nonlocal table, ghosts
            while ghosts and ghosts[0][0] <= upto:
                _, gname, gtype = ghosts.pop(0)
                table += akname(gname) + b"\0" * 4 + bytes([gtype & 0xFF]) + (777).to_bytes(3, "little") + struct.pack("<H", 0) + b"\0\0"

        for fi, f in enumerate(v.get("files", [])):
            emit_ghosts(fi)
            ch = file_chains[vi][fi]
            body = bodies[vi][fi]
            ent_rel = len(table)
            table += akname(f["name"]) + bytes(f.get("epad", [0, 0, 0, 0])) + bytes([f["ftype"] & 0xFF]) \
                + (f.get("size_stored", len(body)) & 0xFFFFFF).to_bytes(3, "little") \
                + struct.pack("<H", f.get("start_stored", ch[0]) & 0xFFFF) + bytes(f.get("epad2", [0, 0]))
            sec_i, sec_o = divmod(ent_rel, SECTOR)
            vl.files.append(FileLayout(pi, vi, fi, f["name"], f["kind"], ch, len(body),
                                       base + dch[sec_i] * SECTOR + sec_o,
                                       [base + s * SECTOR for s in ch]))
        emit_ghosts(10 ** 9)
        table += b"\0" * 8 + struct.pack("<H", END_FLAG) + b"\0" * 14
        for src, nm in v.get("after_end", []):
            # behind the marker: a complete entry pointing at a live file's chain under another name - never to be listed
            f0 = v["files"][src]
            table += akname(nm) + b"\0" * 4 + bytes([f0["ftype"] & 0xFF]) + (len(bodies[vi][src]) & 0xFFFFFF).to_bytes(3, "little") \
                + struct.pack("<H", file_chains[vi][src][0]) + b"\0\0"
        put(dch, bytes(table))
        pl.volumes.append(vl)
    # the 100-entry volume table: active volumes may sit in any increasing set of slots, with stale inactive entries between
    vslots = part.get("vslots") or list(range(len(vols)))
    if len(vslots) != len(vols) or sorted(set(vslots)) != list(vslots) or (vslots and vslots[-1] >= N_VOL):
        raise ScenarioInvalid("bad volume slots")
    entries = [akname("") + struct.pack("<HH", 0, 0)] * N_VOL
    for k in range(N_VOL):
        if part.get("stale_volumes") and k not in vslots and k < (vslots[-1] if vslots else 0):
            entries[k] = akname("OLD %d" % k) + struct.pack("<HH", 0, (k % 7) + 3)
    for vi, v in enumerate(vols):
        entries[vslots[vi]] = akname(v["name"]) + struct.pack("<HH", v.get("vtype", 3) & 0xFFFF, dir_chains[vi][0])
        pl.volumes[vi].entry_off = base + HDR_BYTES + VOL_ENT * vslots[vi]
    vent = bytearray(b"".join(entries))
    x = nsect // 128 - 1
    hdr = struct.pack("<H", nsect) + b"\0\0" + MAGIC \
        + bytes([0x55 if x % 2 == 0 else 0xD5, (x // 2 + 0xBA) & 0xFF]) + b"\x2F\x00"
    assert len(hdr) == HDR_BYTES
    full = hdr + bytes(vent) + b"".join(struct.pack("<H", w) for w in sat)
    assert len(full) == HDR_TOTAL
    img[0:len(full)] = full
    img[len(full):HDR_SECTORS * SECTOR] = b"\0" * (HDR_SECTORS * SECTOR - len(full))
    pl.free = list(al.free)
    return bytes(img), pl


# --------------------------------------------------------------------------
# expected results (the reference model)
# --------------------------------------------------------------------------

def expected_pcm(f: dict) -> bytes:
    n = f["n"]
    start, end = f.get("start", 0), f.get("end", n)
    return sample_pcm(f)[2 * start:2 * end]


def expected_rate(f: dict) -> int:
    r = f.get("rate", 44100)
    return r if r else 44100


def partition_letter(i: int) -> str:
    return chr(ord("A") + i)
