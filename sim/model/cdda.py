"""Independent cue/bin writer and reference model (no smpl_extract import).

Model: {"bin_name": str, "bin_key": str, "bin_len": n,
        "tracks": [{"num": k, "mode": "AUDIO", "title": str|None, "indices": [[idx, mm, ss, ff], ...]}]}
"""
from __future__ import annotations

from typing import Dict, List, Optional, Tuple

from ..core import pcm_bytes

SECTOR = 2352
FRAME = 4


PERIOD = 99991      # prime: no multiple of a sector or frame size aliases onto the same content


def bin_bytes(model: dict) -> bytes:
    """Bin content: a keyed pseudo-random block repeated with a prime period (cheap for bins of tens of MB)."""
    n = model["bin_len"]
    if n <= PERIOD:
        return pcm_bytes(model["bin_key"], (n + 1) // 2)[:n]
    block = pcm_bytes(model["bin_key"], (PERIOD + 1) // 2)[:PERIOD]
    return (block * (n // PERIOD + 1))[:n]


def _kw(model: dict, word: str) -> str:
    # cue keywords are case-insensitive; some authoring tools write them in lower or title case
    case = model.get("kw_case")
    return word.lower() if case == "lower" else (word.title() if case == "title" else word)


def cue_text(model: dict) -> str:
    lines = ['%s "%s" %s' % (_kw(model, "FILE"), model["bin_name"], _kw(model, "BINARY"))]
    for t in model["tracks"]:
        lines.append("  %s %02d %s" % (_kw(model, "TRACK"), t["num"], t.get("mode", "AUDIO")))
        if t.get("title") is not None:
            lines.append('    %s "%s"' % (_kw(model, "TITLE"), t["title"]))
        for idx, mm, ss, ff in t["indices"]:
            lines.append("    %s %02d %02d:%02d:%02d" % (_kw(model, "INDEX"), idx, mm, ss, ff))
    return "\n".join(lines) + "\n"


def first_sector(track: dict) -> int:
    _, mm, ss, ff = track["indices"][0]
    return (mm * 60 + ss) * 75 + ff


def msf(sector: int) -> Tuple[int, int, int]:
    mm, r = divmod(sector, 60 * 75)
    ss, ff = divmod(r, 75)
    return mm, ss, ff


def expected_tracks(model: dict) -> List[Tuple[str, bytes]]:
    """[(title, pcm)] in order; the last track runs to the end of the bin truncated to whole frames."""
    data = bin_bytes(model)
    out = []
    ts = [t for t in model["tracks"] if t.get("mode", "AUDIO").lower() == "audio"]
    for i, t in enumerate(ts):
        a = first_sector(t) * SECTOR
        if i + 1 < len(ts):
            b = first_sector(ts[i + 1]) * SECTOR
        else:
            b = a + ((len(data) - a) // FRAME) * FRAME
        title = t.get("title") or "Untitled Track %d" % (i + 1)
        out.append((title, data[a:b]))
    return out
