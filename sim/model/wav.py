"""Independent RIFF/WAVE walker (does not import smpl_extract).

``walk(data)`` returns a WavInfo or raises WavInvalid(reason).  The checks are
exactly the clauses of property C04.
"""
from __future__ import annotations

import io
import struct
import wave
from dataclasses import dataclass, field
from typing import List, Optional, Tuple


class WavInvalid(Exception):
    def __init__(self, reason: str, detail: str = "") -> None:
        super().__init__(reason + (": " + detail if detail else ""))
        self.reason = reason
        self.detail = detail


@dataclass
class WavInfo:
    channels: int
    rate: int
    bits: int
    block_align: int
    byte_rate: int
    frames: int
    pcm: bytes
    has_smpl: bool = False
    smpl_loops: List[Tuple[int, int, int, int, int, int]] = field(default_factory=list)
    smpl_note: Optional[int] = None
    smpl_fraction: Optional[int] = None
    smpl_period: Optional[int] = None
    chunk_order: List[str] = field(default_factory=list)

    def channel(self, c: int) -> bytes:
        """PCM words of channel c, 16-bit."""
        w = self.bits // 8
        step = self.block_align
        out = bytearray()
        pcm = self.pcm
        for off in range(c * w, len(pcm), step):
            out += pcm[off:off + w]
        return bytes(out)


def walk(data: bytes) -> WavInfo:
    n = len(data)
    if n < 12:
        raise WavInvalid("too_short", str(n))
    if data[0:4] != b"RIFF":
        raise WavInvalid("no_riff_magic")
    riff_size = struct.unpack_from("<I", data, 4)[0]
    if riff_size != n - 8:
        raise WavInvalid("riff_size", "declared %d, file-8 = %d" % (riff_size, n - 8))
    if data[8:12] != b"WAVE":
        raise WavInvalid("no_wave_magic")
    pos = 12
    chunks = []
    while pos < n:
        if pos + 8 > n:
            raise WavInvalid("chunk_header_truncated", "at %d" % pos)
        cid = data[pos:pos + 4]
        size = struct.unpack_from("<I", data, pos + 4)[0]
        body = pos + 8
        if body + size > n:
            raise WavInvalid("chunk_overruns_file", "%r size %d at %d" % (cid, size, pos))
        chunks.append((cid, body, size))
        pos = body + size
        # RIFF pads odd chunks to even; the tool only writes even-sized chunks,
        # an odd one would make the sizes not "add up exactly"
        if size % 2 == 1:
            raise WavInvalid("odd_chunk", repr(cid))
    if pos != n:
        raise WavInvalid("sizes_do_not_add_up")
    order = [c[0] for c in chunks]
    names = [c.decode("latin-1") for c in order]
    if order not in ([b"fmt ", b"data"], [b"fmt ", b"smpl", b"data"]):
        raise WavInvalid("chunk_order", ",".join(names))
    cid, body, size = chunks[0]
    if size != 16:
        raise WavInvalid("fmt_size", str(size))
    fmt, ch, rate, byte_rate, align, bits = struct.unpack_from("<HHIIHH", data, body)
    if fmt != 1:
        raise WavInvalid("not_pcm", str(fmt))
    if bits != 16:
        raise WavInvalid("bits", str(bits))
    if ch < 1:
        raise WavInvalid("channels", str(ch))
    if align != ch * 2:
        raise WavInvalid("block_align", "%d for %d channels" % (align, ch))
    if byte_rate != (rate * align) & 0xFFFFFFFF or byte_rate != rate * align:
        raise WavInvalid("byte_rate", "%d != %d*%d" % (byte_rate, rate, align))
    info = WavInfo(ch, rate, bits, align, byte_rate, 0, b"", chunk_order=names)
    if len(chunks) == 3:
        cid, body, size = chunks[1]
        if size < 36:
            raise WavInvalid("smpl_size", str(size))
        (manu, prod, period, note, frac, smpte_f, smpte_o, nloops, sdata) = struct.unpack_from("<9I", data, body)
        if size != 36 + 24 * nloops:
            raise WavInvalid("smpl_size", "size %d, loops %d" % (size, nloops))
        info.has_smpl = True
        info.smpl_note, info.smpl_fraction, info.smpl_period = note, frac, period
        for i in range(nloops):
            info.smpl_loops.append(struct.unpack_from("<6I", data, body + 36 + 24 * i))
    cid, body, size = chunks[-1]
    if size % align != 0:
        raise WavInvalid("data_not_whole_frames", "%d %% %d" % (size, align))
    info.pcm = data[body:body + size]
    info.frames = size // align
    # second opinion: the standard library
    try:
        with wave.open(io.BytesIO(data), "rb") as w:
            if (w.getnchannels(), w.getframerate(), w.getsampwidth(), w.getnframes()) != (ch, rate, 2, info.frames):
                raise WavInvalid("stdlib_disagrees", repr((w.getnchannels(), w.getframerate(), w.getsampwidth(), w.getnframes())))
    except (wave.Error, EOFError, struct.error) as e:
        raise WavInvalid("stdlib_rejects", str(e))
    return info
