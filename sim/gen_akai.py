"""Seeded generator of AKAI logical models (shared by several properties)."""
from __future__ import annotations

import random
from typing import List, Optional

from .core import weighted
from .model import akai as A

SAFE_CHARS = "ABCDEFGHIJKMNOPQSTUVWXYZ0123456789"      # no L / R: cannot form a stereo suffix by accident
WORDS = ["KICK", "SNARE", "HAT", "PAD", "BASS", "STR", "VOX", "FX", "TOM", "BD", "SD", "PNO", "GTR", "ORG", "SAW", "SQ"]


def safe_name(rng: random.Random, used: set, maxlen: int = 12) -> str:
    """A name on which every sane sanitiser is the identity: [A-Z0-9] words, single inner spaces."""
    for _ in range(200):
        k = rng.random()
        if k < 0.5:
            s = rng.choice(WORDS) + " " + str(rng.randint(0, 99))
        elif k < 0.8:
            s = "".join(rng.choice(SAFE_CHARS) for _ in range(rng.randint(1, 8)))
        else:
            s = "".join(rng.choice(SAFE_CHARS) for _ in range(rng.randint(1, 5))) + " " + \
                "".join(rng.choice(SAFE_CHARS) for _ in range(rng.randint(1, 5)))
        if rng.random() < 0.15 and len(s) >= 2:
            # '.', '#' and '-' inside a name are kept by every sanitiser as they are
            k = rng.randrange(1, len(s))
            s = s[:k] + rng.choice([".", "#", "-", ".1", "#2"]) + s[k:]
        s = s[:maxlen].strip()
        if s[-1:] in ".-" or "-L" in s or "-R" in s or " ." in s or ". " in s or " -" in s or "- " in s:
            continue
        # must not end in a lone L/R token ("X L"), must not be empty, unique
        toks = s.split(" ")
        if not s or toks[-1] in ("L", "R") or s in used:
            continue
        used.add(s)
        return s
    raise RuntimeError("name space exhausted")


def exact_fill_words(k: int) -> int:
    """Number of PCM words that makes header+data fill k sectors exactly."""
    return (k * A.SECTOR - A.SAMPLE_HDR) // 2


def gen_length(rng: random.Random, big: bool = True) -> int:
    kind = weighted(rng, [("zero", 1), ("one", 1), ("small", 6), ("fill", 6), ("rand", 5)])
    if kind == "zero":
        return 0
    if kind == "one":
        return 1
    if kind == "small":
        return rng.randint(2, 600)
    top = (rng.choice([3, 3, 3, 6, 9]) if big else 2)
    if kind == "fill":
        k = rng.randint(1, top)
        return max(0, exact_fill_words(k) + rng.choice([-2, -1, 0, 0, 0, 1, 2]))
    return rng.randint(1, top * A.SECTOR // 2)


def gen_sample(rng: random.Random, name: str, key: str, *, n: Optional[int] = None, markers: bool = True,
               rich_header: bool = True, allow_empty_window: bool = False) -> dict:
    n = gen_length(rng) if n is None else n
    typ = rng.choice([1, 3])
    f = {"kind": "sample", "name": name, "ftype": 0xF3 if rng.random() < 0.6 else 0x73, "key": key, "n": n, "typ": typ,
         "policy": rng.choice(A.POLICIES), "seed": rng.getrandbits(30),
         "rate": weighted(rng, [(44100, 4), (22050, 2), (0, 1), (rng.randint(1, 65535), 2), (rng.choice([1, 2, 65535, 32768, 256]), 1)])}
    if markers and n > 0 and rng.random() < 0.45:
        s = rng.randint(0, n)
        e = rng.randint(s, n)
        if s == e and not allow_empty_window:
            s, e = (0, n)
        if rng.random() < 0.3:
            s = 0
        if rng.random() < 0.3:
            e = n
        if s == e and not allow_empty_window:
            s, e = 0, n
        f["start"], f["end"] = s, e
    if rich_header:
        f["note"] = rng.randint(33, 108)
        f["semi"] = rng.randint(-12, 12)
        f["cents"] = rng.randint(-128, 127)
        lt = weighted(rng, [(2, 5), (0, 1), (1, 1), (3, 1)])
        f["loop_type"] = lt
        if lt != 2 or rng.random() < 0.2:
            loops = []
            for _ in range(rng.randint(0, 3)):
                at = rng.randint(0, max(1, n))
                loops.append([at, rng.randint(0, 65535), rng.randint(0, max(1, at)), rng.choice([0, 1, 50, 9998, 9999, 65535, rng.randint(1, 9000)])])
            f["loops"] = loops
    return f


def gen_program(rng: random.Random, name: str, sample_names: List[str]) -> dict:
    nk = rng.randint(1, 3)
    kgs = []
    addr = 150
    for i in range(nk):
        zones = []
        for _ in range(rng.randint(0, 3)):
            zn = rng.choice(sample_names) if sample_names and rng.random() < 0.8 else "NONE %d" % rng.randint(0, 9)
            lo = rng.randint(0, 100)
            zones.append([zn, lo, rng.randint(lo, 127)])
        nxt = addr + 150 + (rng.choice([0, 0, 10, 150]) if i < nk - 1 else 0)
        kgs.append({"next": nxt if i < nk - 1 else rng.choice([0, nxt]), "zones": zones})
        addr = nxt
    return {"kind": "program", "name": name, "ftype": 0xF0 if rng.random() < 0.6 else 0x70, "kgs": kgs,
            "policy": rng.choice(A.POLICIES), "seed": rng.getrandbits(30)}


def gen_model(rng: random.Random, *, max_parts: int = 3, max_vols: int = 4, max_files: int = 8, pairs: bool = True,
              programs: bool = True, markers: bool = True, rich_header: bool = True, min_files: int = 0,
              allow_empty_window: bool = False, big: bool = True, many_files: float = 0.0, deleted: bool = True) -> dict:
    nparts = weighted(rng, [(1, 6), (2, 3), (3, 1)]) if max_parts >= 3 else rng.randint(1, max_parts)
    parts = []
    keyc = [0]

    def key() -> str:
        keyc[0] += 1
        return "s%d.%d" % (rng.getrandbits(24), keyc[0])

    for pi in range(nparts):
        vols = []
        vnames: set = set()
        for vi in range(rng.randint(0 if min_files == 0 else 1, max_vols)):
            used: set = set()
            files = []
            nf = rng.randint(min_files, max_files)
            if many_files and rng.random() < many_files:
                # a directory that needs more than one sector (>340 entries of 24 bytes)
                for _ in range(rng.randint(341, 352)):
                    files.append(gen_sample(rng, safe_name(rng, used), key(), n=rng.randint(0, 40), markers=False, rich_header=False))
                nf = len(files)
            while len(files) < nf:
                if pairs and nf - len(files) >= 2 and rng.random() < 0.25:
                    stem = safe_name(rng, used, 8)
                    sep = rng.choice([" -", "-", " ", "  ", " - "])
                    ln, rn = (stem + sep + "L")[:12], (stem + sep + "R")[:12]
                    if ln in used or rn in used or len(stem + sep) > 11:
                        continue
                    used.update((ln, rn))
                    n = gen_length(rng, big)
                    a = gen_sample(rng, ln, key(), n=n, markers=False, rich_header=rich_header)
                    b = gen_sample(rng, rn, key(), n=n, markers=False, rich_header=rich_header)
                    b["rate"] = a["rate"]
                    if markers and n > 1 and rng.random() < 0.3:
                        s = rng.randint(0, n - 1)
                        e = rng.randint(s + 1, n)
                        a["start"], a["end"], b["start"], b["end"] = s, e, s, e
                    a["pair"], b["pair"] = [stem, "L"], [stem, "R"]
                    both = [a, b]
                    if rng.random() < 0.4:
                        both.reverse()
                    if rng.random() < 0.3 and files:
                        files.insert(rng.randrange(len(files) + 1), both[0])
                        files.append(both[1])
                    else:
                        files.extend(both)
                elif programs and rng.random() < 0.15:
                    files.append(gen_program(rng, safe_name(rng, used), [f["name"] for f in files if f["kind"] == "sample"]))
                else:
                    files.append(gen_sample(rng, safe_name(rng, used), key(), markers=markers, rich_header=rich_header,
                                            allow_empty_window=allow_empty_window))
            ghosts = []
            if deleted and rng.random() < 0.3:
                # entries of deleted files (start sector 0) left in the table, before / between / after the live ones
                for _ in range(rng.randint(1, 3)):
                    ghosts.append([rng.randint(0, len(files)), safe_name(rng, used), rng.choice([0xF3, 0x73, 0xF0, 0x00, 0x64])])
            after_end = []
            if deleted and files and rng.random() < 0.25:
                # stale but valid-looking entries BEHIND the end-of-table marker (remains of a longer, older table)
                for _ in range(rng.randint(1, 2)):
                    after_end.append([rng.randrange(len(files)), safe_name(rng, used)])
            vols.append({"name": safe_name(rng, vnames), "vtype": rng.choice([1, 3]), "ghosts": ghosts, "after_end": after_end,
                         "dir": {"mode": "run" if rng.random() < 0.3 else "chain", "policy": rng.choice(A.POLICIES),
                                 "seed": rng.getrandbits(30), "v2": rng.random() < 0.3},
                         "files": files})
        part = {"spare": rng.choice([0, 0, 1, 3, 9, 40]), "volumes": vols, "dirs_last": rng.random() < 0.35}
        if deleted and vols and rng.random() < 0.3:
            part["vslots"] = sorted(rng.sample(range(rng.choice([len(vols) + 2, 20, 100])), len(vols)))
            part["stale_volumes"] = rng.random() < 0.6
        parts.append(part)
    return {"partitions": parts, "trailing": rng.choice([0, 0, 0, 1, 100, 8192])}


def expected_exports(model: dict) -> dict:
    """path -> {"channels":[pcm,...], "rate":r}  for names on which sanitising is the identity."""
    out = {}
    for pi, part in enumerate(model["partitions"]):
        for vol in part["volumes"]:
            files = [f for f in vol["files"] if f["kind"] == "sample"]
            by_name = {f["name"]: f for f in files}
            done = set()
            for f in files:
                if f["name"] in done:
                    continue
                pr = f.get("pair")
                if pr:
                    other_side = "R" if pr[1] == "L" else "L"
                    other = next((g for g in files if g.get("pair") == [pr[0], other_side]), None)
                    if other is not None:
                        l, r = (f, other) if pr[1] == "L" else (other, f)
                        done.update((l["name"], r["name"]))
                        out["%s/%s/%s.wav" % (A.partition_letter(pi), vol["name"], pr[0].strip())] = {
                            "channels": [A.expected_pcm(l), A.expected_pcm(r)], "rate": A.expected_rate(l)}
                        continue
                done.add(f["name"])
                out["%s/%s/%s.wav" % (A.partition_letter(pi), vol["name"], f["name"])] = {
                    "channels": [A.expected_pcm(f)], "rate": A.expected_rate(f)}
    return out


def gen_buildable(rng: random.Random, **kw) -> dict:
    """gen_model, retried until the independent writer can place it (reserved runs need contiguous space)."""
    from .core import ScenarioInvalid
    for _ in range(20):
        m = gen_model(rng, **kw)
        try:
            A.build(m)
            return m
        except ScenarioInvalid:
            continue
    raise ScenarioInvalid("could not generate a buildable AKAI model")
