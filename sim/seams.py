"""Seams owned by the simulator.

SimFile      in-memory disc image with an event log and stored-data faults
             (truncation "cut", byte rot, EIO at the k-th read); records any write.
VirtualFS    lets ``smpl_extract.actions`` open cue/bin/image *paths* that are
             backed by SimFiles (the module-global ``open`` of actions.py is the
             seam; the repo is not modified).
Sandbox      per-run real output directory on /dev/shm observed (and policed)
             through a ``sys.addaudithook`` hook.
StepClock    deterministic logical clock on ``sys.monitoring`` (PY_START | JUMP);
             raises StepBudgetExceeded *into* the running code.
Knobs        context manager that patches block-size knobs of the transcoder.

Nothing in here draws from a PRNG or reads a wall clock.
"""
from __future__ import annotations

import contextlib
import errno
import hashlib
import io
import os
import shutil
import sys
import tempfile
from typing import Dict, List, Optional, Tuple

SEEK_SET, SEEK_CUR, SEEK_END = 0, 1, 2


# --------------------------------------------------------------------------
# SimFile
# --------------------------------------------------------------------------

class ImageWriteAttempt(Exception):
    pass


class SimFile(io.IOBase):
    """A read-only random access file over ``data``.

    Semantics follow ``io.BufferedReader`` over a regular file: ``read(n)``
    returns exactly ``min(n, remaining)`` bytes, ``seek`` accepts positions past
    EOF and returns the new absolute position.  No short reads are ever
    injected: a regular file never produces them and every alarm caused by one
    would be false.
    """

    def __init__(self, data: bytes, *, cut: Optional[int] = None,
                 rot: Optional[Dict[int, int]] = None,
                 eio_at: Optional[int] = None, name: str = "image",
                 trace: bool = False) -> None:
        super().__init__()
        self._orig_len = len(data)
        if rot:
            b = bytearray(data)
            for off, val in rot.items():
                if 0 <= off < len(b):
                    b[off] = val & 0xFF
            data = bytes(b)
        self._data = data
        self._len = len(data) if cut is None else max(0, min(len(data), cut))
        self._cut = cut
        self._rot_offsets = sorted(o for o in (rot or {}) if 0 <= o < len(data))
        self._eio_at = eio_at
        self._pos = 0
        self.name = name
        # observation
        self.n_read = 0
        self.n_seek = 0
        self.n_tell = 0
        self.bytes_read = 0
        self.writes = 0
        self.closes = 0
        self._sim_closed = False
        self.cut_hit = 0          # reads that were clipped by / started beyond the cut
        self.rot_hit = 0          # reads that returned at least one rotted byte
        self.eio_fired = 0
        self._digest = hashlib.blake2b(digest_size=16)
        self.trace: Optional[List[Tuple]] = [] if trace else None
        self.watch: Optional[List[Tuple[int, int]]] = None  # (pos, n) of every read when enabled

    # -- file protocol -----------------------------------------------------
    def readable(self) -> bool:
        return True

    def seekable(self) -> bool:
        return True

    def writable(self) -> bool:
        return False

    def tell(self) -> int:
        self._check_open()
        self.n_tell += 1
        return self._pos

    def seek(self, offset: int, whence: int = SEEK_SET) -> int:
        self._check_open()
        if whence == SEEK_SET:
            new = offset
        elif whence == SEEK_CUR:
            new = self._pos + offset
        elif whence == SEEK_END:
            new = self._len + offset
        else:
            raise ValueError("bad whence")
        if new < 0:
            raise OSError(errno.EINVAL, "Invalid argument")
        self._pos = new
        self.n_seek += 1
        self._digest.update(b"s%d;" % new)
        if self.trace is not None:
            self.trace.append(("seek", offset, whence, new))
        return new

    def read(self, size: Optional[int] = -1) -> bytes:
        self._check_open()
        if size is None or size < 0:
            size = max(0, self._len - self._pos)
        self.n_read += 1
        if self._eio_at is not None and self.n_read == self._eio_at:
            self.eio_fired += 1
            self._digest.update(b"E;")
            raise OSError(errno.EIO, "Input/output error (injected)")
        pos = self._pos
        end = min(self._len, pos + size)
        if pos >= self._len:
            out = b""
        else:
            out = self._data[pos:end]
        if self._cut is not None and self._cut < self._orig_len and pos + size > self._len:
            self.cut_hit += 1
        if self._rot_offsets and out:
            for o in self._rot_offsets:
                if pos <= o < end:
                    self.rot_hit += 1
                    break
        self._pos = pos + len(out)
        self.bytes_read += len(out)
        self._digest.update(b"r%d,%d;" % (size, len(out)))
        if self.trace is not None:
            self.trace.append(("read", pos, size, len(out)))
        if self.watch is not None:
            self.watch.append((pos, len(out)))
        return out

    def readinto(self, b) -> int:      # pragma: no cover - not used by the tool
        data = self.read(len(b))
        b[:len(data)] = data
        return len(data)

    def write(self, b):                # noqa: D401
        self.writes += 1
        self._digest.update(b"W;")
        raise ImageWriteAttempt("write() on the disc image")

    def truncate(self, size=None):
        self.writes += 1
        self._digest.update(b"T;")
        raise ImageWriteAttempt("truncate() on the disc image")

    def flush(self):
        return None

    def close(self):
        # like a real file object: once closed (the unchanged tool never closes the handle while an image is in use),
        # every further read / seek / tell raises ValueError.  The harness-side helpers below keep working.
        if not self._sim_closed:
            self._digest.update(b"c;")
        self._sim_closed = True
        self.closes += 1

    def _check_open(self):
        if self._sim_closed:
            raise ValueError("I/O operation on closed file.")

    # -- helpers for the harness (never called by the tool) -----------------
    @property
    def size(self) -> int:
        return self._len

    def poke_cursor(self, pos: int) -> None:
        """A foreign holder of the same handle moves the cursor."""
        self._pos = pos
        self._digest.update(b"p%d;" % pos)

    def peek_cursor(self) -> int:
        return self._pos

    def content_digest(self) -> str:
        return hashlib.blake2b(self._data, digest_size=16).hexdigest()

    def event_digest(self) -> str:
        return self._digest.hexdigest()

    @property
    def io_events(self) -> int:
        return self.n_read + self.n_seek + self.n_tell


# --------------------------------------------------------------------------
# Virtual file system for actions.determine_image_type(path)
# --------------------------------------------------------------------------

class VirtualFS:
    """Backs ``open(path, ...)`` calls made by ``smpl_extract.actions``.

    ``files`` maps a path to bytes or to a ready SimFile.  Text-mode opens get a
    real TextIOWrapper with the requested encoding so that non-ASCII content
    raises ``UnicodeDecodeError`` exactly as a real file does.
    """

    def __init__(self, files: Dict[str, object], **simfile_kw) -> None:
        self.files = {os.path.normpath(k): v for k, v in files.items()}
        self.opened: List[Tuple[str, str]] = []
        self.simfiles: Dict[str, SimFile] = {}
        self.simfile_kw = simfile_kw
        self.faults: Dict[str, dict] = {}

    def open(self, path, mode="r", *args, **kw):
        p = os.path.normpath(path)
        self.opened.append((p, mode))
        if p not in self.files:
            raise FileNotFoundError(errno.ENOENT, "No such file or directory", path)
        if any(c in mode for c in "wax+"):
            raise ImageWriteAttempt("image opened with mode %r" % mode)
        obj = self.files[p]
        if "b" in mode:
            if isinstance(obj, SimFile):
                sf = obj
            else:
                faults = {os.path.normpath(k): v for k, v in self.faults.items()}.get(p, {})
                sf = SimFile(obj, name=p, **faults, **self.simfile_kw)
            self.simfiles[p] = sf
            return sf
        raw = obj._data if isinstance(obj, SimFile) else obj
        encoding = kw.get("encoding") or (args[1] if len(args) > 1 else None) or "utf-8"
        return io.TextIOWrapper(io.BytesIO(raw), encoding=encoding)

    @contextlib.contextmanager
    def installed(self):
        import smpl_extract.actions as actions
        had = "open" in actions.__dict__
        old = actions.__dict__.get("open")
        actions.open = self.open
        try:
            yield self
        finally:
            if had:
                actions.open = old
            else:
                del actions.open


# --------------------------------------------------------------------------
# Output sandbox + audit hook
# --------------------------------------------------------------------------

class _HookState:
    installed = False
    active: Optional["Sandbox"] = None


def _audit(event: str, args) -> None:
    sb = _HookState.active
    if sb is None:
        return
    if event == "open":
        path, mode, flags = args[0], args[1], args[2]
        if not isinstance(path, (str, bytes, os.PathLike)):
            return
        write = False
        if isinstance(mode, str):
            write = any(c in mode for c in "wax+")
        elif isinstance(flags, int):
            write = bool(flags & (os.O_WRONLY | os.O_RDWR | os.O_CREAT | os.O_TRUNC | os.O_APPEND))
        if write:
            sb._on_event("create", os.fsdecode(path))
    elif event == "os.mkdir":
        sb._on_event("mkdir", os.fsdecode(args[0]))
    elif event in ("os.remove", "os.rmdir"):
        sb._on_event("remove", os.fsdecode(args[0]))
    elif event == "os.rename":
        sb._on_event("rename", os.fsdecode(args[0]))
        sb._on_event("rename", os.fsdecode(args[1]))
    elif event in ("os.symlink", "os.link"):
        sb._on_event("link", os.fsdecode(args[1]))


def _install_hook() -> None:
    if not _HookState.installed:
        sys.addaudithook(_audit)
        _HookState.installed = True


def _sandbox_root() -> str:
    base = "/dev/shm" if os.path.isdir("/dev/shm") and os.access("/dev/shm", os.W_OK) else tempfile.gettempdir()
    return os.path.join(base, "simv-%d" % os.getpid())


class Sandbox:
    """A per-run output directory ``<root>/<tag>/n0/n1/n2/n3/dest``.

    Four levels of nesting make ``..`` escapes of depth <= 4 land inside the
    sandbox where they can be seen.  Anything outside the sandbox is blocked.
    """

    NEST = ("n0", "n1", "n2", "n3")

    def __init__(self, tag: str = "r", fail_create_at: Optional[int] = None) -> None:
        _install_hook()
        self.root = os.path.join(_sandbox_root(), tag)
        self.dest = os.path.join(self.root, *self.NEST, "dest")
        self.fail_create_at = fail_create_at
        self.events: List[Tuple[str, str, str]] = []    # (kind, zone, relpath)
        self.creates: List[str] = []                     # inside dest, relative
        self.escapes: List[Tuple[str, str]] = []         # (kind, abs path)
        self.dup_creates: List[str] = []
        self.create_failed = 0
        self._n_create = 0
        self._seen_create = set()
        self._suspended = 0

    def __enter__(self) -> "Sandbox":
        shutil.rmtree(self.root, ignore_errors=True)
        os.makedirs(os.path.dirname(self.dest))
        _HookState.active = self
        return self

    def __exit__(self, *exc) -> None:
        _HookState.active = None
        shutil.rmtree(self.root, ignore_errors=True)
        try:
            os.rmdir(_sandbox_root())
        except OSError:
            pass

    @contextlib.contextmanager
    def suspended(self):
        """Harness-side file access (reading results back) is not an observation."""
        prev = _HookState.active
        _HookState.active = None
        try:
            yield
        finally:
            _HookState.active = prev

    def new_export(self, sub: str = "") -> str:
        """Start a new export operation; returns its destination directory."""
        self._seen_create = set()
        if sub:
            d = os.path.join(os.path.dirname(self.dest), sub)
            self.dest = d
        return self.dest

    def _zone(self, path: str) -> Tuple[str, str]:
        p = os.path.normpath(os.path.join(os.getcwd(), path))
        dest = self.dest
        if p == dest or p.startswith(dest + os.sep):
            return "dest", os.path.relpath(p, dest)
        if p == self.root or p.startswith(self.root + os.sep):
            return "sandbox", p
        return "outside", p

    def _on_event(self, kind: str, path: str) -> None:
        zone, rel = self._zone(path)
        self.events.append((kind, zone, rel))
        if zone == "dest":
            if kind == "create":
                self._n_create += 1
                if rel in self._seen_create:
                    self.dup_creates.append(rel)
                self._seen_create.add(rel)
                self.creates.append(rel)
                if self.fail_create_at is not None and self._n_create == self.fail_create_at:
                    self.create_failed += 1
                    raise OSError(errno.ENOSPC, "No space left on device (injected)")
            return
        # pycache writes or similar by the interpreter itself are not the tool's
        if path.endswith(".pyc") or "__pycache__" in path:
            return
        self.escapes.append((kind, rel))
        if zone == "outside":
            raise PermissionError(errno.EACCES, "write outside the sandbox blocked", path)

    def tree(self, dest: Optional[str] = None) -> Dict[str, bytes]:
        dest = dest or self.dest
        out: Dict[str, bytes] = {}
        with self.suspended():
            for d, dirs, files in os.walk(dest):
                dirs.sort()
                for f in sorted(files):
                    p = os.path.join(d, f)
                    with open(p, "rb") as fh:
                        out[os.path.relpath(p, dest)] = fh.read()
        return out

    def dirs(self, dest: Optional[str] = None) -> List[str]:
        dest = dest or self.dest
        out = []
        with self.suspended():
            for d, dirs, files in os.walk(dest):
                dirs.sort()
                for x in dirs:
                    out.append(os.path.relpath(os.path.join(d, x), dest))
        return sorted(out)

    def stray_files(self) -> List[str]:
        """Files anywhere in the sandbox but outside every dest used so far."""
        out = []
        base = os.path.dirname(self.dest)
        with self.suspended():
            for d, dirs, files in os.walk(self.root):
                if d == base or d.startswith(base + os.sep):
                    continue
                for f in files:
                    out.append(os.path.join(d, f))
        return sorted(out)


# --------------------------------------------------------------------------
# Step clock
# --------------------------------------------------------------------------

_OWN_DIR = os.path.dirname(os.path.dirname(os.path.abspath(__file__))) + os.sep


class StepBudgetExceeded(BaseException):
    """Raised into the code under test when the logical step budget is spent.

    Derives from BaseException so that ``except Exception`` in the tool or in
    construct cannot swallow it; a bare ``except:`` can, but the next event
    raises again.
    """


class StepClock:
    TOOL_ID = 4
    _owner: Optional["StepClock"] = None
    _registered = False

    def __init__(self, budget: int) -> None:
        self.budget = budget
        self.steps = 0
        self.exceeded = False

    # the callbacks are module-level closures over the current owner to keep
    # the per-event cost minimal
    @classmethod
    def _ensure_registered(cls) -> None:
        if cls._registered:
            return
        m = sys.monitoring
        if m.get_tool(cls.TOOL_ID) is None:
            m.use_tool_id(cls.TOOL_ID, "simv-stepclock")

        DISABLE = m.DISABLE
        own = _OWN_DIR

        # events in the harness's own code objects are switched off for good
        # (DISABLE is per code location), so the clock measures - and can only
        # interrupt - the code under test and the libraries it calls
        def on_jump(code, off, dst):
            c = cls._owner
            if c is not None:
                if code.co_filename.startswith(own):
                    return DISABLE
                c.steps += 1
                if c.steps > c.budget:
                    c.exceeded = True
                    raise StepBudgetExceeded(c.steps)

        def on_start(code, off):
            c = cls._owner
            if c is not None:
                if code.co_filename.startswith(own):
                    return DISABLE
                c.steps += 1
                if c.steps > c.budget:
                    c.exceeded = True
                    raise StepBudgetExceeded(c.steps)

        m.register_callback(cls.TOOL_ID, m.events.JUMP, on_jump)
        m.register_callback(cls.TOOL_ID, m.events.PY_START, on_start)
        cls._registered = True

    def __enter__(self) -> "StepClock":
        self._ensure_registered()
        m = sys.monitoring
        StepClock._owner = self
        m.set_events(self.TOOL_ID, m.events.JUMP | m.events.PY_START)
        return self

    def __exit__(self, *exc) -> None:
        m = sys.monitoring
        m.set_events(self.TOOL_ID, 0)
        StepClock._owner = None

    @classmethod
    def acknowledge(cls) -> None:
        """The harness has received StepBudgetExceeded: stop interrupting (library code called by the
        harness itself would otherwise be interrupted too).  If the *tool* swallows the exception the harness
        never gets here and the clock keeps firing on every event."""
        c = cls._owner
        if c is not None:
            c.exceeded = True
            c.budget = 1 << 62

    @contextlib.contextmanager
    def paused(self):
        m = sys.monitoring
        m.set_events(self.TOOL_ID, 0)
        StepClock._owner = None
        try:
            yield
        finally:
            StepClock._owner = self
            m.set_events(self.TOOL_ID, m.events.JUMP | m.events.PY_START)


class NullClock:
    steps = 0
    exceeded = False
    budget = 0

    def __enter__(self):
        return self

    def __exit__(self, *exc):
        return None


# --------------------------------------------------------------------------
# Knobs
# --------------------------------------------------------------------------

@contextlib.contextmanager
def knobs(block_bytes: Optional[int] = None):
    """Patch the transcoder's internal block size (default 4096)."""
    import smpl_extract.transcoder as tr
    f = tr.get_num_frames_possible
    old = f.__defaults__
    if block_bytes is not None:
        f.__defaults__ = (int(block_bytes),)
    try:
        yield
    finally:
        f.__defaults__ = old


@contextlib.contextmanager
def captured_stdout():
    buf = io.StringIO()
    with contextlib.redirect_stdout(buf):
        yield buf
