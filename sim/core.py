"""Core types and the PRNG discipline of the simulator."""
from __future__ import annotations

import collections
import hashlib
import json
import random
from dataclasses import dataclass, field
from typing import Any, Dict, List, Optional

DEFAULT_SEED = 20260927
CURRENT_BASE_SEED = DEFAULT_SEED      # set by the driver in every worker before gen(); lets a generator derive group-level seeds


def derive_seed(base: int, prop: str, index: int) -> int:
    """One integer decides everything: per-run seed = H(VERIF_SEED, property, run index)."""
    h = hashlib.blake2b(b"%d|%s|%d" % (base, prop.encode(), index), digest_size=8).digest()
    return int.from_bytes(h, "big")


def rng_for(base: int, prop: str, index: int) -> random.Random:
    return random.Random(derive_seed(base, prop, index))


def pcm_bytes(key: str, n_words: int) -> bytes:
    """Attributable PCM: a keyed pseudo-random stream, 2*n_words bytes.

    Any 8-byte window identifies its owner with overwhelming probability.  The
    stream for a key is prefix-stable (shorter n_words gives a prefix).
    """
    if n_words <= 0:
        return b""
    out = bytearray()
    ctr = 0
    need = 2 * n_words
    k = key.encode()
    while len(out) < need:
        out += hashlib.blake2b(b"%s|%d" % (k, ctr), digest_size=64).digest()
        ctr += 1
    return bytes(out[:need])


def jdump(obj: Any) -> str:
    return json.dumps(obj, sort_keys=True, separators=(",", ":"))


def jhash(obj: Any) -> str:
    return hashlib.blake2b(jdump(obj).encode(), digest_size=12).hexdigest()


class ScenarioInvalid(Exception):
    """The scenario cannot be materialised (used by the shrinker to reject candidates)."""


class CleanArmFailed(Exception):
    """The fault-free arm of a differential check failed.  Never happens on the unchanged tree; on a modified
    tree it means a well-formed image is no longer handled, which the driver reports as a violation (class
    ``clean_arm_failed``) rather than as a harness error or a silent skip."""


class HarnessError(Exception):
    """A failure of the machinery itself; never a property violation."""


@dataclass
class Violation:
    prop: str
    cls: str                       # violation class, e.g. "not_prefix"
    detail: str = ""
    features: Dict[str, Any] = field(default_factory=dict)   # matched against known findings

    def key(self):
        return (self.prop, self.cls)

    def to_json(self):
        return {"property": self.prop, "class": self.cls, "detail": self.detail, "features": self.features}


@dataclass
class RunResult:
    violations: List[Violation] = field(default_factory=list)
    probes: collections.Counter = field(default_factory=collections.Counter)
    faults: collections.Counter = field(default_factory=collections.Counter)
    steps: int = 0
    io_events: int = 0
    digest: str = ""               # determinism digest: seam events + stdout + output tree
    state_hash: str = ""           # distinctness measure stated by the property
    nontrivial: bool = False
    sample: Optional[dict] = None  # abbreviated description of the case

    def add(self, prop: str, cls: str, detail: str = "", **features) -> None:
        self.violations.append(Violation(prop, cls, detail, features))

    def to_wire(self):
        return {
            "v": [v.to_json() for v in self.violations],
            "p": dict(self.probes), "f": dict(self.faults),
            "s": self.steps, "io": self.io_events, "d": self.digest,
            "h": self.state_hash, "nt": self.nontrivial, "smp": self.sample,
        }

    @staticmethod
    def from_wire(w) -> "RunResult":
        r = RunResult()
        r.violations = [Violation(v["property"], v["class"], v.get("detail", ""), v.get("features", {})) for v in w["v"]]
        r.probes = collections.Counter(w["p"])
        r.faults = collections.Counter(w["f"])
        r.steps, r.io_events, r.digest = w["s"], w["io"], w["d"]
        r.state_hash, r.nontrivial, r.sample = w["h"], w["nt"], w["smp"]
        return r


def digest_of(*parts) -> str:
    h = hashlib.blake2b(digest_size=16)
    for p in parts:
        if isinstance(p, bytes):
            h.update(p)
        elif isinstance(p, str):
            h.update(p.encode("utf-8", "surrogatepass"))
        else:
            h.update(jdump(p).encode())
        h.update(b"\x00")
    return h.hexdigest()


def tree_digest(tree: Dict[str, bytes]) -> str:
    h = hashlib.blake2b(digest_size=16)
    for k in sorted(tree):
        h.update(k.encode("utf-8", "surrogatepass"))
        h.update(b"\x00")
        h.update(hashlib.blake2b(tree[k], digest_size=16).digest())
    return h.hexdigest()


def weighted(rng: random.Random, pairs):
    """pairs: [(item, weight), ...]"""
    total = sum(w for _, w in pairs)
    x = rng.random() * total
    acc = 0.0
    for item, w in pairs:
        acc += w
        if x < acc:
            return item
    return pairs[-1][0]
