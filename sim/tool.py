"""Thin driver around the tool's public entry points (real code, no stubs).

Everything the oracles use is what the property statements name: the
``Exported ...`` lines, the files created, the ``ls`` text, raised exceptions.
"""
from __future__ import annotations

import os
import traceback
from dataclasses import dataclass, field
from typing import Dict, List, Optional, Tuple

from .seams import Sandbox, SimFile, StepBudgetExceeded, StepClock, captured_stdout


def _imports():
    from smpl_extract import actions
    return actions


@dataclass
class OpResult:
    stdout: str = ""
    exc: Optional[str] = None          # exception type name, None if returned
    exc_msg: str = ""
    exc_tb: str = ""
    budget: bool = False               # step budget exceeded


@dataclass
class ExportResult(OpResult):
    reported: List[str] = field(default_factory=list)     # paths from "Exported <path>" lines
    tree: Dict[str, bytes] = field(default_factory=dict)  # files found under dest
    creates: List[str] = field(default_factory=list)      # creates seen at the seam (dest-relative)
    dup_creates: List[str] = field(default_factory=list)
    escapes: List[Tuple[str, str]] = field(default_factory=list)
    other_lines: List[str] = field(default_factory=list)


def open_image(file_or_path):
    """determine_image_type on a SimFile or (virtual) path.  Returns (image, OpResult)."""
    actions = _imports()
    r = OpResult()
    image = None
    try:
        with captured_stdout() as buf:
            image = actions.determine_image_type(file_or_path)
    except StepBudgetExceeded:
        StepClock.acknowledge()
        r.exc, r.budget = "StepBudgetExceeded", True
    except Exception as e:                     # noqa: BLE001 - observation, not handling
        r.exc, r.exc_msg, r.exc_tb = type(e).__name__, str(e)[:200], _short_tb()
    r.stdout = buf.getvalue()
    return image, r


def run_ls(image, path: str) -> OpResult:
    actions = _imports()
    r = OpResult()
    try:
        with captured_stdout() as buf:
            actions.ls_action(image, path)
    except StepBudgetExceeded:
        StepClock.acknowledge()
        r.exc, r.budget = "StepBudgetExceeded", True
    except RecursionError as e:
        r.exc, r.exc_msg = "RecursionError", ""
    except Exception as e:                     # noqa: BLE001
        r.exc, r.exc_msg, r.exc_tb = type(e).__name__, str(e)[:200], _short_tb()
    r.stdout = buf.getvalue()
    return r


def run_export(image, sb: Sandbox, sub: str = "") -> ExportResult:
    actions = _imports()
    dest = sb.new_export(sub)
    n_creates0 = len(sb.creates)
    n_dup0 = len(sb.dup_creates)
    n_esc0 = len(sb.escapes)
    r = ExportResult()
    try:
        with captured_stdout() as buf:
            actions.export_samples_to_wav(image, dest)
    except StepBudgetExceeded:
        StepClock.acknowledge()
        r.exc, r.budget = "StepBudgetExceeded", True
    except RecursionError:
        r.exc = "RecursionError"
    except Exception as e:                     # noqa: BLE001
        r.exc, r.exc_msg, r.exc_tb = type(e).__name__, str(e)[:200], _short_tb()
    r.stdout = buf.getvalue()
    for line in r.stdout.split("\n"):
        if line.startswith("Exported "):
            r.reported.append(line[len("Exported "):])
        elif line:
            r.other_lines.append(line)
    r.tree = sb.tree(dest)
    r.creates = sb.creates[n_creates0:]
    r.dup_creates = sb.dup_creates[n_dup0:]
    r.escapes = sb.escapes[n_esc0:]
    return r


def _short_tb() -> str:
    tb = traceback.format_exc().strip().split("\n")
    # keep the innermost repo frame for diagnostics
    frames = [l.strip() for l in tb if "smpl_extract" in l and l.strip().startswith("File")]
    return (frames[-1] if frames else "") + " | " + tb[-1][:160]


def parse_ls_table(text: str) -> Optional[List[Tuple[str, str]]]:
    """Parse the ``Item / Type`` table printed for a directory.

    Returns [(name, type)], [] for ``(*empty*)``, None if the text is not a table.
    Column offset is taken from the header line, as DESIGN section 7 says.
    """
    lines = text.split("\n")
    if lines and lines[0].strip() == "(*empty*)":
        return []
    if len(lines) < 2 or not lines[0].startswith("Item"):
        return None
    col = lines[0].find("Type")
    if col < 0 or not set(lines[1]) <= {"-"}:
        return None
    rows = []
    for l in lines[2:]:
        if l == "":
            continue
        rows.append((l[:col - 1].rstrip() if len(l) >= col else l.rstrip(), l[col:].rstrip()))
    return rows


# --------------------------------------------------------------------------
# cross-check through the real CLI in a subprocess on real files
# --------------------------------------------------------------------------

def cli_export(files: Dict[str, bytes], image_name: str, timeout: float = 120.0):
    """Runs ``python -m smpl_extract export <image> -d dest`` on real files.

    Returns (returncode, stdout, tree).  Used for a small sample of scenarios to
    bound how much SimFile / the virtual FS can misrepresent real file objects.
    """
    import shutil
    import subprocess
    import sys
    import tempfile
    from .seams import _sandbox_root
    root = _sandbox_root() + "-cli"
    os.makedirs(root, exist_ok=True)
    d = tempfile.mkdtemp(dir=root)
    try:
        for name, data in files.items():
            os.makedirs(os.path.dirname(os.path.join(d, name)), exist_ok=True)
            with open(os.path.join(d, name), "wb") as fh:
                fh.write(data)
        dest = os.path.join(d, "dest")
        repo = os.environ.get("VERIF_REPO", "/repo")
        env = dict(os.environ)
        env["PYTHONPATH"] = repo
        env["PYTHONDONTWRITEBYTECODE"] = "1"
        p = subprocess.run([sys.executable, "-B", "-m", "smpl_extract", "export", os.path.join(d, image_name), "-d", dest],
                           capture_output=True, text=True, timeout=timeout, env=env, cwd=d)
        tree: Dict[str, bytes] = {}
        for dd, dirs, fs in os.walk(dest):
            dirs.sort()
            for f in sorted(fs):
                pth = os.path.join(dd, f)
                with open(pth, "rb") as fh:
                    tree[os.path.relpath(pth, dest)] = fh.read()
        return p.returncode, p.stdout, tree
    finally:
        shutil.rmtree(d, ignore_errors=True)
        try:
            os.rmdir(root)
        except OSError:
            pass


def cli_ls(files: Dict[str, bytes], image_name: str, path: str = "", timeout: float = 120.0):
    import shutil
    import subprocess
    import sys
    import tempfile
    from .seams import _sandbox_root
    root = _sandbox_root() + "-cli"
    os.makedirs(root, exist_ok=True)
    d = tempfile.mkdtemp(dir=root)
    try:
        for name, data in files.items():
            os.makedirs(os.path.dirname(os.path.join(d, name)), exist_ok=True)
            with open(os.path.join(d, name), "wb") as fh:
                fh.write(data)
        repo = os.environ.get("VERIF_REPO", "/repo")
        env = dict(os.environ)
        env["PYTHONPATH"] = repo
        env["PYTHONDONTWRITEBYTECODE"] = "1"
        argv = [sys.executable, "-B", "-m", "smpl_extract", "ls", os.path.join(d, image_name)]
        if path:
            argv.append(path)
        p = subprocess.run(argv, capture_output=True, text=True, timeout=timeout, env=env, cwd=d)
        return p.returncode, p.stdout
    finally:
        shutil.rmtree(d, ignore_errors=True)
        try:
            os.rmdir(root)
        except OSError:
            pass
