#!/bin/bash
# Offline setup: nothing is installed or built; verify the interpreter, imports and scratch space.
set -e
HERE="$(cd "$(dirname "${BASH_SOURCE[0]}")" && pwd)"
PY="${VERIF_PYTHON:-/venv/bin/python}"
mkdir -p "$HERE/out/replays" "$HERE/evidence"
"$PY" -B - <<'PY'
import sys
assert sys.version_info >= (3, 12), "sys.monitoring needs Python 3.12"
import construct, numpy
sys.path.insert(0, "/repo")
import smpl_extract.actions
try:
    import smpl_extract.filters.fir, smpl_extract.filters.iir
except Exception as e:
    print("setup: WARNING compiled filter extensions not importable (%s); C19 will report HARNESS-ERROR" % e)
import os
ok = os.path.isdir("/dev/shm") and os.access("/dev/shm", os.W_OK)
print("setup: python %s construct %s numpy %s /dev/shm %s" % (sys.version.split()[0], construct.__version__, numpy.__version__, "ok" if ok else "missing (tempdir fallback)"))
PY
