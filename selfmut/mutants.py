"""Scripted sensitivity mutants: small edits to a scratch copy of the repo.

Each entry: id, props (checks expected to catch it), file, old, new.  A mutant is
admissible only if the repo's own 62-test suite still passes with it.
"""
MUTANTS = [
    dict(id="c11_skip_seek_when_sequential", props=["C11", "C01"], file="smpl_extract/util/sector.py",
         old="""        self.substream.seek(start_address, SEEK_SET)
        result = self.substream.read(size)
        return result
""",
         new="""        if getattr(self, "_next_address", None) != start_address:
            self.substream.seek(start_address, SEEK_SET)
        result = self.substream.read(size)
        self._next_address = start_address + len(result)
        return result
"""),
    dict(id="c11_trust_own_history", props=["C11", "C03"], file="smpl_extract/util/stream.py",
         old="""        true_position = self.substream.tell()
        expected_position = self._translate_addr(self.position)
        if expected_position != true_position:
            self._seek(self.position)

        result = self._read(self.true_size)
        self.position += self.true_size
        return result
""",
         new="""        expected_position = self._translate_addr(self.position)
        if getattr(self, "_synced_at", None) != expected_position:
            self._seek(self.position)

        result = self._read(self.true_size)
        self.position += self.true_size
        self._synced_at = self._translate_addr(self.position) \\
            if self.true_size and type(self) is StreamOffset else None
        return result
"""),
    dict(id="c08_file_sector_off_by_one_last", props=["C08", "C01", "C02", "C07"], file="smpl_extract/util/fat.py",
         old="""        sector  = self.sector_list[sector_index]
""",
         new="""        sector  = self.sector_list[sector_index]
        if sector_index > 2 and sector_index == len(self.sector_list) - 1 and offset > 4096:
            sector = self.sector_list[sector_index - 1]
"""),
    dict(id="c03_frames_plus_one", props=["C03"], file="smpl_extract/cuesheet.py",
         old="""            self.n_frames
        return total_frames""",
         new="""            self.n_frames + (1 if self.n_minutes > 0 else 0)
        return total_frames"""),
    dict(id="c09_mdf_header_offset", props=["C09"], file="smpl_extract/alcohol/mdf.py",
         old="""        mdf_address = sector_address + MDF_SECTOR_HEADER_SIZE + offset
""",
         new="""        mdf_address = sector_address + MDF_SECTOR_HEADER_SIZE + offset
        if sector_index > 40 and offset > 2040:
            mdf_address += 1
"""),
    dict(id="c12_min_to_max_buffer", props=["C12"], file="smpl_extract/transcoder.py",
         old="""    num_frames = min(list(get_num_frames_possible(x) for x in streams))""",
         new="""    num_frames = max(list(get_num_frames_possible(x) for x in streams))"""),
    dict(id="c05_swap_lr", props=["C05", "C01"], file="smpl_extract/structural.py",
         old="""                    if alternate_ending == "R":
                        pairs = [sample, alternate_sample]
                    else:
                        pairs = [alternate_sample, sample]
""",
         new="""                    if alternate_ending == "R" or samples.index(sample) > 2:
                        pairs = [sample, alternate_sample]
                    else:
                        pairs = [alternate_sample, sample]
"""),
    dict(id="c06_skip_counter_collision", props=["C06", "C05"], file="smpl_extract/structural.py",
         old="""                    while (next_name in candidate_names.keys()):""",
         new="""                    while (False and next_name in candidate_names.keys()):"""),
    dict(id="c15_drop_sector_read_error_handler", props=["C15"], file="smpl_extract/transcoder.py",
         old="""        try:
            buffer = stream.read(self.buffer_size)
        except SectorReadError as e:
            raise StopIteration
""",
         new="""        buffer = stream.read(self.buffer_size)
"""),
    dict(id="c04_byte_rate", props=["C04", "C01"], file="smpl_extract/formats/wav.py",
         old="""        this.sample_rate * this.channel_cnt * this.bits_per_sample//8
    ),""",
         new="""        this.sample_rate * this.bits_per_sample//8
    ),"""),
    dict(id="c16_cache_ls_by_basename", props=["C16"], file="smpl_extract/actions.py",
         old="""    info = item.get_info()
    result_str = info.to_string()
    print(result_str)
""",
         new="""    cache = image.__dict__.setdefault("_ls_cache", {})
    key = path.strip().split("/")[-1]
    if key not in cache:
        cache[key] = item.get_info().to_string()
    result_str = cache[key]
    print(result_str)
"""),
    dict(id="c02_reverse_off_by_one", props=["C02", "C08", "C11"], file="smpl_extract/util/stream.py",
         old="""        true_address = self.end_of_file - (address + self.true_size)
        if true_address % self.sample_width != 0:""",
         new="""        true_address = self.end_of_file - (address + self.true_size)
        if address > 0x2000 and self.true_size > 0:
            true_address -= self.sample_width
        if true_address % self.sample_width != 0:"""),
    dict(id="c07_roland_cluster_top_plus_one", props=["C02", "C07"], file="smpl_extract/roland/s7xx/fat.py",
         old="""        if cluster_offset > 0:
            sector_list = sector_list[cluster_offset:]""",
         new="""        if cluster_offset > 1:
            sector_list = sector_list[cluster_offset:]"""),
    dict(id="c14_akai_entry_size_23", props=["C14", "C01"], file="smpl_extract/akai/file_entry.py",
         old="""            if file_entry_container is not None and file_entry_container.start > 0:""",
         new="""            if file_entry_container is not None and file_entry_container.start > 3:"""),
    dict(id="c13_partition_scan_no_progress", props=["C13"], file="smpl_extract/akai/partition.py",
         old="""        if partition_container.header.size <= 0:
            raise ConstructError
""",
         new="""        if partition_container.header.size < 0:
            raise ConstructError
"""),
    dict(id="c01_rate_default", props=["C01"], file="smpl_extract/akai/sample.py",
         old="""        if sample_rate == 0:
            sample_rate = DEFAULT_SAMPLE_RATE""",
         new="""        if sample_rate <= 1:
            sample_rate = DEFAULT_SAMPLE_RATE"""),
    dict(id="c01_dir_run_v2_flag", props=["C01", "C07"], file="smpl_extract/akai/sat.py",
         old="""                    current_sector_is_directory = value_current in (
                            AKAI_SAT_RESERVED_FLAG_STD, 
                            AKAI_SAT_RESERVED_FLAG_V2
                    )""",
         new="""                    current_sector_is_directory = value_current in (
                            AKAI_SAT_RESERVED_FLAG_STD, 
                    )"""),
]

MUTANTS += [
    dict(id="c13_reintroduce_roland_fat_cycle", props=["C13", "C07"], file="smpl_extract/roland/s7xx/fat.py",
         old="""                if subpath_index in subpath_visited:
                    raise ConstructError("Encountered loop in FAT.")
""",
         new="""                if subpath_index in subpath_visited and len(subpath_visited) > 3:
                    raise ConstructError("Encountered loop in FAT.")
"""),
    dict(id="c13_get_path_guard_off", props=["C13", "C07"], file="smpl_extract/util/fat.py",
         old="""            current_sector = sector_link.next
            loop_cnt += 1
""",
         new="""            current_sector = sector_link.next
            loop_cnt += (1 if current_sector % 7 else 0)
"""),
    dict(id="c06_generated_name_check_off", props=["C06", "C05"], file="smpl_extract/structural.py",
         old="""                            or next_name in generated_names):""",
         new="""                            or False):"""),
    dict(id="c14_no_realign", props=["C14"], file="smpl_extract/akai/file_entry.py",
         old="""                stream.seek(entry_address + table_entry_size, SEEK_SET)
""",
         new="""                stream.seek(entry_address + table_entry_size - (1 if _i > 1 else 0), SEEK_SET)
"""),
]
MUTANTS += [dict(id="harness_probe_mdf_ctor", props=["C08","C09"], file="smpl_extract/alcohol/mdf.py",
 old="""        num_sectors = parent_size // MDF_SECTOR_SIZE
""", new="""        num_sectors = parent_size // MDF_SECTOR_SIZE
        if parent_size % MDF_SECTOR_SIZE == 100:
            raise ValueError("partial raw sector")
""")]

MUTANTS += [
    dict(id="c01_stop_at_deleted_entry", props=["C01"], file="smpl_extract/akai/file_entry.py",
         old="""            if file_entry_container is not None and file_entry_container.start > 0:""",
         new="""            if file_entry_container is not None and file_entry_container.start <= 0:
                break
            if file_entry_container is not None:"""),
    dict(id="c01_stop_at_inactive_volume", props=["C01"], file="smpl_extract/akai/volume.py",
         old="""            if volume_type != VolumeType.INACTIVE:""",
         new="""            if volume_type == VolumeType.INACTIVE and len(volumes) > 0:
                break
            if volume_type != VolumeType.INACTIVE:"""),
]
