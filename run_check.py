#!/venv/bin/python
"""Entry point behind ./check (kept outside the package so no module is loaded twice)."""
import os
import sys

VERIF = os.path.dirname(os.path.abspath(__file__))
REPO = os.environ.get("VERIF_REPO", "/repo")
sys.dont_write_bytecode = True
sys.path.insert(0, REPO)
sys.path.insert(1, VERIF)

if __name__ == "__main__":
    from sim import driver
    sys.exit(driver.main(sys.argv[1:]))
